"""Generator `integration`: src/math/integration.rs (+ Steps::value of src/utils.rs)  ->  coq/Gen/Integration.v   (C12)

A typed translator for the numerical-kernel subset used by the quadrature code.  Every function body is translated
literally (lets, closures, iterator chains, early returns, recursion) into Gallina over the operation record
`num_ops` of Base/NumOps.v, so the same generated text runs over Q (vm_compute) and is reasoned about over R.

Types:  Z usize · N usize used as recursion fuel (see FUEL) · S f64 · V Complex<f64> · B bool · ('fn', k) integrand of
k scalar arguments · ('tup', [...]) · ('list', T) iterators.

What is modelled how (anything else raises Untranslatable, which the check reports as a broken obligation):
  * `assert!(c)` and usize subtraction do not appear in the value model (a total function); they are collected, in
    program order, into `<fn>_accepts : bool` — true iff no usize subtraction underflows and every assert holds.
  * `(lo..=hi)` -> zrange_incl, `Steps(a, b, n)` iterated -> map (steps_value a b n) (zrange 0 n) [the producer /
    iterator machinery behind it is C15's subject], `.into_par_iter()` / `.into_iter()` -> identity (a parallel
    sum is the same real number), `.enumerate()`, `.map(closure)`, `.sum()`.
  * `if c { return X; } rest` -> `if c then X else rest`;  `if c {A} else {B}` with A and B translating to the same
    term -> that term (the sequential and the rayon branch of `simpson`).
  * a recursive function with a fuel parameter p (usize, named in FUEL): the first statement must be
    `if p == 0 || … { return X; }` and every recursive call must pass `p - 1`; it becomes a structural Fixpoint on p : nat.
  * `x.norm() <= y` -> vnorm_leb x y;  Complex*f64 and f64*Complex -> vscale;  Complex/f64 -> vdiv.
"""
import os
import re
from fractions import Fraction

from rustparse import parse_file, Untranslatable

FUEL = {"max_depth"}
SRC = "src/math/integration.rs"
UTILS = "src/utils.rs"


class Tr:
    def __init__(self, fname, items, fn_sigs):
        self.fname = fname
        self.items = items
        self.sigs = fn_sigs       # name -> (param types, ret type)
        self.cur = None           # name of the function being translated
        self.fuel_var = None      # (rust name, coq name of predecessor) while inside the S-branch
        self.guards = None

    def fail(self, what, e=None):
        raise Untranslatable(self.fname, 0, f"{self.cur}: {what}" + (f" in {str(e)[:160]}" if e is not None else ""))

    # ------------------------------------------------------------------ literals
    def lit(self, txt, want):
        t = txt.rstrip(".")
        if want == "Z" or (want is None and re.fullmatch(r"[0-9]+", txt)):
            if not re.fullmatch(r"[0-9]+", t):
                self.fail("integer literal expected", txt)
            return t, "Z"
        fr = Fraction(t if not t.endswith(".") else t[:-1])
        if fr.denominator == 1:
            return f"(s_of_Z O {fr.numerator})", "S"
        return f"(s_of_Q O ({fr.numerator} # {fr.denominator}))", "S"

    # ------------------------------------------------------------------ expressions
    def ev(self, e, env, want=None):
        """returns (coq text, type)"""
        tag = e[0]
        if tag == "paren":
            return self.ev(e[1], env, want)
        if tag == "num":
            # a literal written with a '.' or exponent is f64; a bare integer takes the type the context wants
            txt = e[1]
            isfloat = ("." in txt) or ("e" in txt.lower())
            if isfloat or want == "S":
                return self.lit(txt, "S")
            return self.lit(txt, "Z")
        if tag == "path":
            segs = e[1]
            if len(segs) == 1:
                if segs[0] not in env:
                    self.fail("unknown variable", segs[0])
                return env[segs[0]]
            if segs == ["f64", "EPSILON"]:
                return "(s_of_Q O (1 # 4503599627370496))", "S"     # 2^-52
            self.fail("unknown path", segs)
        if tag == "unary":
            op, x = e[1], e[2]
            if op in ("&", "*"):
                return self.ev(x, env, want)
            self.fail("unary operator", op)
        if tag == "cast":
            x, ty = self.ev(e[1], env, "Z")
            if e[2].strip() == "f64" and ty == "Z":
                return f"(s_of_Z O {x})", "S"
            self.fail("cast", e)
        if tag == "bin":
            return self.binop(e, env, want)
        if tag == "mcall":
            return self.mcall(e, env, want)
        if tag == "call":
            return self.call(e, env)
        if tag == "tuple":
            parts = [self.ev(x, env) for x in e[1]]
            return "(" + ", ".join(p[0] for p in parts) + ")", ("tup", [p[1] for p in parts])
        if tag == "range":
            lo, tl = self.ev(e[1], env, "Z")
            hi, th = self.ev(e[2], env, "Z")
            if tl != "Z" or th != "Z":
                self.fail("range bounds", e)
            return f"({'zrange_incl' if e[3] else 'zrange'} {lo} {hi})", ("list", "Z")
        if tag == "if":
            return self.ifexpr(e, env, want)
        if tag == "block":
            return self.block(e, env, want)
        if tag == "field":
            x, t = self.ev(e[1], env)
            if t == "V" and e[2] in ("re", "im"):
                return f"(v{e[2]} O {x})", "S"
            if isinstance(t, tuple) and t[0] == "ccout" and e[2] == "integral":
                return x, "S"
            # quad-rs: Result<Output{result: IntegrationResult{result: Option<Complex>}}>: .unwrap().result.result.unwrap()
            if isinstance(t, tuple) and t[0] == "gk" and t[1] in (1, 2) and e[2] == "result":
                return x, ("gk", t[1] + 1)
            self.fail("field ." + e[2] + " of " + str(t), e)
        if tag == "closure":
            self.fail("closure outside a call/map position", e)
        self.fail("expression form " + tag, e)

    def binop(self, e, env, want):
        op, l, r = e[1], e[2], e[3]
        if op in ("||", "&&"):
            a, ta = self.ev(l, env)
            b, tb = self.ev(r, env)
            if ta != "B" or tb != "B":
                self.fail("boolean operands expected", e)
            return f"({a} {op} {b})%bool", "B"
        if op in ("==", "<", "<=", ">", ">=", "!="):
            # z.norm() <= s
            if op == "<=" and l[0] == "mcall" and l[2] == "norm":
                z, tz = self.ev(l[1], env)
                s, ts = self.ev(r, env, "S")
                if tz != "V" or ts != "S":
                    self.fail("norm comparison", e)
                return f"(vnorm_leb O {z} {s})", "B"
            a, ta = self.ev(l, env)
            b, tb = self.ev(r, env, ta if ta in ("Z", "S", "N") else None)
            if ta == "N" and tb == "Z":
                self.fail("comparison on the fuel parameter outside the recognised pattern", e)
            if ta != tb:
                a, ta = self.ev(l, env, tb)
            if ta != tb:
                self.fail("comparison of different types", e)
            if ta == "Z":
                if op == ">":
                    return f"({b} <? {a})", "B"
                if op == ">=":
                    return f"({b} <=? {a})", "B"
                zop = {"==": "=?", "<": "<?", "<=": "<=?"}.get(op)
                if zop is None:
                    self.fail("comparison", op)
                return f"({a} {zop} {b})", "B"
            if ta == "S":
                if op == ">":
                    return f"(sltb O {b} {a})", "B"
                if op == ">=":
                    return f"(sleb O {b} {a})", "B"
                sop = {"==": "seqb", "<": "sltb", "<=": "sleb"}.get(op)
                if sop is None:
                    self.fail("comparison", op)
                return f"({sop} O {a} {b})", "B"
            self.fail("comparison type", e)
        if op in ("+", "-", "*", "/", "%"):
            a, ta = self.ev(l, env, want if want in ("Z", "S") else None)
            b, tb = self.ev(r, env, ta if ta in ("Z", "S") else None)
            if ta == "Z" and tb in ("S", "V"):
                a, ta = self.ev(l, env, "S")
            if ta == "Z" and tb == "Z":
                if op == "-":
                    if self.guards is not None:
                        self.guards.append(f"(0 <=? {a} - {b})")
                    return f"({a} - {b})", "Z"
                zop = {"+": "+", "*": "*", "%": "mod"}.get(op)
                if zop is None:
                    self.fail("usize operator", op)
                return f"({a} {zop} {b})", "Z"
            if ta == "N" or tb == "N":
                self.fail("arithmetic on the fuel parameter outside the recognised pattern", e)
            if ta == "S" and tb == "S":
                sop = {"+": "sadd", "-": "ssub", "*": "smul", "/": "sdiv"}.get(op)
                if sop is None:
                    self.fail("f64 operator", op)
                return f"({sop} O {a} {b})", "S"
            if ta == "V" and tb == "V" and op in "+-":
                return f"({'vadd' if op == '+' else 'vsub'} O {a} {b})", "V"
            if op == "*" and ta == "S" and tb == "V":
                return f"(vscale O {a} {b})", "V"
            if op == "*" and ta == "V" and tb == "S":
                return f"(vscale O {b} {a})", "V"
            if op == "/" and ta == "V" and tb == "S":
                return f"(vdiv O {a} {b})", "V"
            self.fail(f"operator {op} on {ta},{tb}", e)
        self.fail("binary operator", op)

    def closure_of(self, e, env):
        """a closure literal, or a variable bound to one"""
        if e[0] == "unary" and e[1] == "&":
            return self.closure_of(e[2], env)
        if e[0] == "closure":
            return e, env
        if e[0] == "path" and len(e[1]) == 1 and e[1][0] in env:
            v = env[e[1][0]]
            if isinstance(v, tuple) and v[0] == "__closure__":
                return v[1], v[2]
        return None, None

    def bind_pattern(self, pat, ty, env):
        """returns (coq binder text, new env)"""
        env = dict(env)
        if pat[0] == "pbind":
            env[pat[1]] = (self.cname(pat[1]), ty)
            return self.cname(pat[1]), env
        if pat[0] == "ptuple":
            if not (isinstance(ty, tuple) and ty[0] == "tup" and len(ty[1]) == len(pat[1])):
                self.fail("tuple pattern against a non-tuple", pat)
            parts = []
            for p, t in zip(pat[1], ty[1]):
                if p[0] != "pbind":
                    self.fail("nested pattern", pat)
                env[p[1]] = (self.cname(p[1]), t)
                parts.append(self.cname(p[1]))
            return "'(" + ", ".join(parts) + ")", env
        self.fail("pattern", pat)

    RESERVED = {"end", "left", "right", "in", "at", "by", "as", "with", "fun", "match", "fix", "return", "then", "else", "Type"}

    def cname(self, n):
        return n + "_" if n in self.RESERVED else n

    def lam(self, clo, cenv, argtys):
        """translate a closure applied to arguments of the given types: returns (fun text, result type)"""
        _, pats, body = clo
        if len(pats) != len(argtys):
            self.fail("closure arity", clo)
        env = dict(cenv)
        binders = []
        for p, t in zip(pats, argtys):
            b, env = self.bind_pattern(p, t, env)
            binders.append(b)
        txt, ty = self.ev(body, env)
        return "(fun " + " ".join(binders) + " => " + txt + ")", ty

    def mcall(self, e, env, want):
        recv, name, args = e[1], e[2], e[3]
        if name in ("into_par_iter", "into_iter", "iter", "par_iter") and not args:
            x, t = self.ev(recv, env)
            if not (isinstance(t, tuple) and t[0] == "list"):
                self.fail("iteration over a non-iterable", e)
            return x, t
        if name == "enumerate" and not args:
            x, t = self.ev(recv, env)
            if not (isinstance(t, tuple) and t[0] == "list"):
                self.fail("enumerate on a non-iterator", e)
            return f"(zenumerate {x})", ("list", ("tup", ["Z", t[1]]))
        if name == "map" and len(args) == 1:
            x, t = self.ev(recv, env)
            if not (isinstance(t, tuple) and t[0] == "list"):
                self.fail("map on a non-iterator", e)
            clo, cenv = self.closure_of(args[0], env)
            if clo is None:
                self.fail("map argument is not a closure", e)
            f, rt = self.lam(clo, cenv, [t[1]])
            return f"(map {f} {x})", ("list", rt)
        if name == "sum" and not args:
            x, t = self.ev(recv, env)
            if t == ("list", "V"):
                return f"(vsum O {x})", "V"
            if t == ("list", "S"):
                return f"(ssum O {x})", "S"
            self.fail("sum over " + str(t), e)
        if name == "into" and not args:
            x, t = self.ev(recv, env)
            if t != "V":
                self.fail(".into() on a non-complex value", e)
            return x, t
        if name == "abs" and not args:
            x, t = self.ev(recv, env, "S")
            if t != "S":
                self.fail(".abs() on " + str(t), e)
            return f"(sabs O {x})", "S"
        if name == "max" and len(args) == 1:
            x, t = self.ev(recv, env, "Z")
            y, ty = self.ev(args[0], env, "Z")
            if t != "Z" or ty != "Z":
                self.fail(".max on " + str(t), e)
            return f"(Z.max {x} {y})", "Z"
        if name == "unwrap" and not args:
            x, t = self.ev(recv, env)
            if isinstance(t, tuple) and t[0] == "glnew":
                return x, ("glquad",)
            if isinstance(t, tuple) and t[0] == "gk" and t[1] == 0:
                return x, ("gk", 1)
            if isinstance(t, tuple) and t[0] == "gk" and t[1] == 3:
                return x, "V"
            self.fail(".unwrap() on " + str(t), e)
        if name in ("relative_tolerance", "with_maximum_iter") and len(args) == 1:
            x, t = self.ev(recv, env)
            if not (isinstance(t, tuple) and t[0] == "gkb"):
                self.fail("builder method on " + str(t), e)
            v, tv = self.ev(args[0], env, "S" if name == "relative_tolerance" else None)
            if name == "relative_tolerance":
                if tv != "S" or t[1] is not None:
                    self.fail("relative_tolerance argument", e)
                return "", ("gkb", v, t[2])
            if tv != "N" or t[2] is not None:
                self.fail("with_maximum_iter argument", e)
            return "", ("gkb", t[1], v)
        if name == "integrate":
            x, t = self.ev(recv, env)
            if t == ("glquad",) and len(args) == 3:
                a, ta = self.ev(args[0], env, "S")
                b, tb = self.ev(args[1], env, "S")
                clo, cenv = self.closure_of(args[2], env)
                if ta != "S" or tb != "S" or clo is None:
                    self.fail("GaussLegendre::integrate arguments", e)
                f, tf = self.lam(clo, cenv, ["S"])
                if tf != "S":
                    self.fail("GaussLegendre::integrate integrand must be real valued", e)
                return f"(gl_integrate {x} {a} {b} {f})", "S"
            if isinstance(t, tuple) and t[0] == "gkb" and len(args) == 2:
                if t[1] is None or t[2] is None:
                    self.fail("quad_rs integrator without tolerance / iteration limit", e)
                pr, rg = args
                if not (pr[0] == "call" and pr[1] == ("path", ["Problem"]) and len(pr[2]) == 1 and rg[0] == "range" and not rg[3]):
                    self.fail("quad_rs integrate arguments", e)
                clo, cenv = self.closure_of(pr[2][0], env)
                a, ta = self.ev(rg[1], env)
                b, tb = self.ev(rg[2], env)
                if clo is None or ta != "V" or tb != "V":
                    self.fail("quad_rs integrate: closure over a complex range expected", e)
                f, tf = self.lam(clo, cenv, ["V"])
                if tf != "V":
                    self.fail("quad_rs integrand must be complex valued", e)
                return f"(gk_integrate {t[1]} {t[2]} {f} {a} {b})", ("gk", 0)
            self.fail(".integrate on " + str(t), e)
        if name in ("is_odd", "is_even") and not args:
            x, t = self.ev(recv, env, "Z")
            if t != "Z":
                self.fail(name + " on " + str(t), e)
            return f"(Z.{'odd' if name == 'is_odd' else 'even'} {x})", "B"
        self.fail("method ." + name, e)

    def call(self, e, env):
        f, args = e[1], e[2]
        if f[0] != "path":
            self.fail("call target", e)
        name = f[1][-1]
        if len(f[1]) == 1 and name in env and isinstance(env[name][1], tuple) and env[name][1][0] == "fn":
            k = env[name][1][1]
            if len(args) != k:
                self.fail("integrand arity", e)
            xs = [self.ev(a, env, "S") for a in args]
            if any(t != "S" for _, t in xs):
                self.fail("integrand argument type", e)
            return "(" + env[name][0] + " " + " ".join(x for x, _ in xs) + ")", "V"
        if f[1] == ["Complex", "new"] and len(args) == 2:
            x, tx = self.ev(args[0], env, "S")
            y, ty = self.ev(args[1], env, "S")
            if tx != "S" or ty != "S":
                self.fail("Complex::new arguments", e)
            return f"(vmk O {x} {y})", "V"
        if f[1] == ["gauss_quad", "GaussLegendre", "new"] and len(args) == 1:
            n, tn = self.ev(args[0], env, "Z")
            if tn != "Z":
                self.fail("GaussLegendre::new argument", e)
            return n, ("glnew",)
        if f[1] == ["quad_rs", "Integrator", "default"] and not args:
            return "", ("gkb", None, None)
        if f[1] == ["quadrature", "clenshaw_curtis", "integrate"] and len(args) == 4:
            clo, cenv = self.closure_of(args[0], env)
            a, ta = self.ev(args[1], env, "S")
            b, tb = self.ev(args[2], env, "S")
            t_, tt = self.ev(args[3], env, "S")
            if clo is None or (ta, tb, tt) != ("S", "S", "S"):
                self.fail("clenshaw_curtis::integrate arguments", e)
            g, tg = self.lam(clo, cenv, ["S"])
            if tg != "S":
                self.fail("clenshaw_curtis integrand must be real valued", e)
            return f"(cc_integrate {g} {a} {b} {t_})", ("ccout",)
        if f[1] == ["Steps"] and len(args) == 3:
            a, ta = self.ev(args[0], env, "S")
            b, tb = self.ev(args[1], env, "S")
            n, tn = self.ev(args[2], env, "Z")
            if (ta, tb, tn) != ("S", "S", "Z"):
                self.fail("Steps(...) argument types", e)
            return f"(map (steps_value {a} {b} {n}) (zrange 0 {n}))", ("list", "S")
        if len(f[1]) == 1 and name in self.sigs:
            ptys, rty = self.sigs[name]
            if len(ptys) != len(args):
                self.fail("arity of " + name, e)
            out = []
            for a, pt in zip(args, ptys):
                if isinstance(pt, tuple) and pt[0] == "fn":
                    clo, cenv = self.closure_of(a, env)
                    if clo is not None:
                        txt, rt = self.lam(clo, cenv, ["S"] * pt[1])
                        if rt != "V":
                            self.fail("integrand closure must return a complex value", a)
                        out.append(txt)
                        continue
                    x, t = self.ev(a, env)
                    if t != pt:
                        self.fail(f"argument of {name}: expected {pt}, got {t}", a)
                    out.append(x)
                    continue
                if pt == "N":
                    # fuel: either the predecessor inside the S-branch, or a fuel variable passed through
                    if self.fuel_var and a == ("bin", "-", ("path", [self.fuel_var[0]]), ("num", "1", None)):
                        out.append(self.fuel_var[1])
                        continue
                    if name == self.cur:
                        self.fail("recursive call must pass `fuel - 1`", a)
                    x, t = self.ev(a, env)
                    if t != "N":
                        self.fail("fuel argument", a)
                    out.append(x)
                    continue
                x, t = self.ev(a, env, pt if pt in ("S", "Z") else None)
                if t != pt:
                    self.fail(f"argument of {name}: expected {pt}, got {t}", a)
                out.append(x)
            return "(" + name + " " + " ".join(out) + ")", rty
        self.fail("call of " + "::".join(f[1]), e)

    def ifexpr(self, e, env, want):
        c, tc = self.ev(e[1], env)
        if tc != "B":
            self.fail("if condition", e)
        if e[3] is None:
            self.fail("if without else in value position", e)
        a, ta = self.ev(e[2], env, want)
        b, tb = self.ev(e[3], env, want)
        if ta != tb:
            self.fail("if branches of different types", e)
        if a == b:
            return a, ta
        return f"(if {c} then {a} else {b})", ta

    # ------------------------------------------------------------------ cost semantics: number of integrand calls
    @staticmethod
    def plus(*xs):
        xs = [x for x in xs if x != "0"]
        if not xs:
            return "0"
        if len(xs) == 1:
            return xs[0]
        return "(" + " + ".join(xs) + ")%nat"

    def lam_cost(self, clo, cenv, argtys):
        _, pats, body = clo
        env = dict(cenv)
        binders = []
        for p, t in zip(pats, argtys):
            b, env = self.bind_pattern(p, t, env)
            binders.append(b)
        return "(fun " + " ".join(binders) + " => " + self.cost(body, env) + ")"

    def iter_cost(self, e, env):
        """cost of driving an iterator expression to the end"""
        if e[0] == "paren":
            return self.iter_cost(e[1], env)
        if e[0] == "mcall":
            recv, name, args = e[1], e[2], e[3]
            if name in ("into_par_iter", "into_iter", "iter", "par_iter", "enumerate"):
                return self.iter_cost(recv, env)
            if name == "map":
                x, t = self.ev(recv, env)
                clo, cenv = self.closure_of(args[0], env)
                body = self.lam_cost(clo, cenv, [t[1]])
                inner = self.iter_cost(recv, env)
                if body.endswith("=> 0)"):
                    return inner
                return self.plus(inner, f"(list_sum (map {body} {x}))")
        if e[0] == "range":
            return self.plus(self.cost(e[1], env), self.cost(e[2], env))
        if e[0] == "call" and e[1] == ("path", ["Steps"]):
            return self.plus(*[self.cost(a, env) for a in e[2]])
        self.fail("cost of iterator", e)

    def cost(self, e, env):
        tag = e[0]
        if tag in ("num", "path", "str", "bool"):
            return "0"
        if tag == "paren":
            return self.cost(e[1], env)
        if tag == "unary":
            return self.cost(e[2], env)
        if tag == "cast":
            return self.cost(e[1], env)
        if tag == "bin":
            return self.plus(self.cost(e[2], env), self.cost(e[3], env))
        if tag == "tuple":
            return self.plus(*[self.cost(x, env) for x in e[1]])
        if tag == "range":
            return self.plus(self.cost(e[1], env), self.cost(e[2], env))
        if tag == "mcall":
            recv, name, args = e[1], e[2], e[3]
            if name == "sum":
                return self.iter_cost(recv, env)
            if name in ("into", "abs", "norm", "is_odd", "is_even"):
                return self.cost(recv, env)
            self.fail("cost of method ." + name, e)
        if tag == "call":
            f, args = e[1], e[2]
            name = f[1][-1]
            if len(f[1]) == 1 and name in env and isinstance(env[name][1], tuple) and env[name][1][0] == "fn":
                xs = [self.ev(a, env, "S")[0] for a in args]
                return self.plus(*([self.cost(a, env) for a in args] + ["(" + env[name][0] + "_calls " + " ".join(xs) + ")"]))
            if f[1] == ["Steps"]:
                return self.plus(*[self.cost(a, env) for a in args])
            if len(f[1]) == 1 and name in self.sigs:
                ptys, _ = self.sigs[name]
                out, pre = [], []
                if not any(isinstance(pt, tuple) and pt[0] == "fn" for pt in ptys):
                    return self.plus(*[self.cost(a, env) for a in args])
                for a, pt in zip(args, ptys):
                    if isinstance(pt, tuple) and pt[0] == "fn":
                        clo, cenv = self.closure_of(a, env)
                        if clo is not None:
                            out.append(self.lam(clo, cenv, ["S"] * pt[1])[0])
                            out.append(self.lam_cost(clo, cenv, ["S"] * pt[1]))
                        else:
                            x, _ = self.ev(a, env)
                            out.append(x)
                            out.append(x + "_calls")
                        continue
                    if pt == "N":
                        if self.fuel_var and a == ("bin", "-", ("path", [self.fuel_var[0]]), ("num", "1", None)):
                            out.append(self.fuel_var[1])
                        else:
                            out.append(self.ev(a, env)[0])
                        continue
                    pre.append(self.cost(a, env))
                    out.append(self.ev(a, env, pt if pt in ("S", "Z") else None)[0])
                return self.plus(*(pre + ["(" + name + "_calls " + " ".join(out) + ")"]))
            self.fail("cost of call", e)
        if tag == "if":
            c, _ = self.ev(e[1], env)
            a = self.cost(e[2], env)
            b = self.cost(e[3], env)
            if a == b:
                return self.plus(self.cost(e[1], env), a)
            return self.plus(self.cost(e[1], env), f"(if {c} then {a} else {b})")
        if tag == "block":
            return self.cstmts(list(e[1]), e[2], env)
        if tag == "return":
            return self.cost(e[1], env)
        self.fail("cost of expression form " + tag, e)

    def cstmts(self, sts, tail, env):
        if not sts:
            return self.cost(tail, env)
        st, rest = sts[0], sts[1:]
        if st[0] == "expr" and st[1][0] == "macro" and st[1][1] in ("assert", "debug_assert"):
            return self.cstmts(rest, tail, env)
        er = self.early_return(st)
        if er is not None:
            c, _ = self.ev(er[0], env)
            return self.plus(self.cost(er[0], env), f"(if {c} then {self.cost(er[1], env)} else {self.cstmts(rest, tail, env)})")
        if st[0] == "let":
            pat, val = st[1], st[3]
            if val[0] == "closure":
                env2 = dict(env)
                env2[pat[1]] = ("__closure__", val, dict(env))
                return self.cstmts(rest, tail, env2)
            x, t = self.ev(val, env)
            b, env2 = self.bind_pattern(pat, t, env)
            r = self.cstmts(rest, tail, env2)
            cv = self.cost(val, env)
            if r == "0":
                return cv
            return self.plus(cv, f"(let {b} := {x} in\n   {r})")
        self.fail("cost of statement form " + st[0], st)

    # ------------------------------------------------------------------ blocks
    def block(self, blk, env, want=None):
        if blk[0] != "block":
            return self.ev(blk, env, want)
        return self.stmts(list(blk[1]), blk[2], env, want)

    def early_return(self, st):
        """`if c { return X; }` as a statement -> (c, X)"""
        if st[0] == "expr" and st[1][0] == "if" and st[1][3] is None:
            then = st[1][2]
            if then[0] == "block" and len(then[1]) == 1 and then[2] is None and then[1][0][0] == "expr" and then[1][0][1][0] == "return":
                return st[1][1], then[1][0][1][1]
            if then[0] == "block" and not then[1] and then[2] is not None and then[2][0] == "return":
                return st[1][1], then[2][1]
        return None

    def stmts(self, sts, tail, env, want):
        if not sts:
            if tail is None:
                self.fail("block without a value")
            if tail[0] == "return":
                return self.ev(tail[1], env, want)
            return self.ev(tail, env, want)
        st, rest = sts[0], sts[1:]
        if st[0] == "expr" and st[1][0] == "macro" and st[1][1] in ("assert", "debug_assert"):
            if self.guards is not None:
                c, tc = self.ev(st[1][2][0], env)
                if tc != "B":
                    self.fail("assert condition", st)
                self.guards.append(c)
            return self.stmts(rest, tail, env, want)
        er = self.early_return(st)
        if er is not None:
            c, tc = self.ev(er[0], env)
            x, tx = self.ev(er[1], env, want)
            r, tr = self.stmts(rest, tail, env, want)
            if tc != "B" or tx != tr:
                self.fail("early return", st)
            return f"(if {c} then {x} else {r})", tr
        if st[0] == "let":
            pat, ann, val = st[1], st[2], st[3]
            if val is None:
                self.fail("let without initialiser", st)
            if val[0] == "closure":
                if pat[0] != "pbind":
                    self.fail("closure bound to a pattern", st)
                env2 = dict(env)
                env2[pat[1]] = ("__closure__", val, dict(env))
                return self.stmts(rest, tail, env2, want)
            x, t = self.ev(val, env)
            if isinstance(t, tuple) and t[0] == "gkb":
                # a configured quad_rs::Integrator is not a value of the model: remember its settings under the name
                if pat[0] != "pbind":
                    self.fail("integrator bound to a pattern", st)
                env2 = dict(env)
                env2[pat[1]] = ("", t)
                return self.stmts(rest, tail, env2, want)
            if self.guards is not None:
                self.guards.append(("let", pat, x, t))
            b, env2 = self.bind_pattern(pat, t, env)
            r, tr = self.stmts(rest, tail, env2, want)
            return f"(let {b} := {x} in\n   {r})", tr
        self.fail("statement form " + st[0], st)


def split_or(e):
    if e[0] == "bin" and e[1] == "||":
        return split_or(e[2]) + split_or(e[3])
    if e[0] == "paren":
        return split_or(e[1])
    return [e]


def join_or(es):
    out = es[0]
    for x in es[1:]:
        out = ("bin", "||", out, x)
    return out


def param_types(it):
    """types of the parameters from the signature text"""
    fnbound = {}
    for m in re.finditer(r"\b([A-Z])\s*:\s*(?:[A-Za-z]+\s*\+\s*)*Fn\(([^)]*)\)", it.text):
        args = [a for a in m.group(2).split(",") if a.strip()]
        if any(a.strip() != "f64" for a in args):
            raise Untranslatable(it.file, it.span[0], f"{it.name}: integrand argument types {m.group(2)}")
        fnbound[m.group(1)] = ("fn", len(args))
    out = []
    for pat, ty in it.params:
        if pat[0] != "pbind":
            raise Untranslatable(it.file, it.span[0], f"{it.name}: parameter pattern")
        t = ty.replace(" ", "").lstrip("&")
        if t == "usize":
            out.append((pat[1], "N" if pat[1] in FUEL else "Z"))
        elif t == "f64":
            out.append((pat[1], "S"))
        elif t == "Complex<f64>":
            out.append((pat[1], "V"))
        elif t in fnbound:
            out.append((pat[1], fnbound[t]))
        else:
            raise Untranslatable(it.file, it.span[0], f"{it.name}: parameter type {ty}")
    return out


def ret_type(it):
    t = (it.ret or "").replace(" ", "")
    if t == "f64":
        return "S"
    if t == "Complex<f64>":
        return "V"
    if t == "(f64,Complex<f64>,Complex<f64>)":
        return ("tup", ["S", "V", "V"])
    raise Untranslatable(it.file, it.span[0], f"{it.name}: return type {it.ret}")


def coq_type(t):
    if t == "Z":
        return "Z"
    if t == "N":
        return "nat"
    if t == "S":
        return "Sc O"
    if t == "V":
        return "Vc O"
    if isinstance(t, tuple) and t[0] == "fn":
        return " -> ".join(["Sc O"] * t[1] + ["Vc O"])
    if isinstance(t, tuple) and t[0] == "tup":
        return "(" + " * ".join(coq_type(x) for x in t[1]) + ")%type"
    raise ValueError(t)


def translate_fn(tr, it, out_lines, accepts=False, calls=False):
    tr.cur = it.name
    ptys = param_types(it)
    rty = ret_type(it)
    env = {n: (tr.cname(n), t) for n, t in ptys}
    binders = " ".join(f"({tr.cname(n)} : {coq_type(t)})" for n, t in ptys)
    tr.sigs[it.name] = ([t for _, t in ptys], rty)
    body = it.body
    if it.error or body is None:
        raise Untranslatable(it.file, it.span[0], f"{it.name}: body does not parse: {it.error}")
    fuel = [n for n, t in ptys if t == "N"]
    recursive = ("'" + it.name + "'") in repr(body)
    tr.guards = [] if accepts else None
    tr.fuel_var = None
    if recursive:
        if len(fuel) != 1:
            raise Untranslatable(it.file, it.span[0], f"{it.name}: recursive function without a fuel parameter")
        p = fuel[0]
        sts = list(body[1])
        er = tr.early_return(sts[0]) if sts else None
        if er is None:
            raise Untranslatable(it.file, it.span[0], f"{it.name}: recursion on {p} needs `if {p} == 0 || … {{ return … }}` first")
        ds = split_or(er[0])
        zero = ("bin", "==", ("path", [p]), ("num", "0", None))
        if zero not in ds:
            raise Untranslatable(it.file, it.span[0], f"{it.name}: the early return does not test `{p} == 0`")
        others = [d for d in ds if d != zero]
        x0, t0 = tr.ev(er[1], env, None)
        pred = p + "'"
        tr.fuel_var = (p, pred)
        env_s = dict(env)
        del env_s[p]      # inside the S-branch the fuel is only available as `p - 1`
        rest_txt, rest_t = tr.stmts(sts[1:], body[2], env_s, None)
        if others:
            c, tc = tr.ev(join_or(others), env_s)
            rest_txt = f"(if {c} then {x0} else\n   {rest_txt})"
        if t0 != rty or rest_t != rty:
            raise Untranslatable(it.file, it.span[0], f"{it.name}: result type")
        out_lines.append(f"Fixpoint {it.name} {binders} {{struct {p}}} : {coq_type(rty)} :=\n"
                         f"  match {p} with\n  | 0%nat => {x0}\n  | S {pred} =>\n   {rest_txt}\n  end.\n")
        tr.fuel_var = None
    else:
        txt, t = tr.block(body, env)
        if t != rty:
            raise Untranslatable(it.file, it.span[0], f"{it.name}: result type {t} vs {rty}")
        out_lines.append(f"Definition {it.name} {binders} : {coq_type(rty)} :=\n  {txt}.\n")
    if calls:
        cbinders = []
        for n, t in ptys:
            cbinders.append(f"({tr.cname(n)} : {coq_type(t)})")
            if isinstance(t, tuple) and t[0] == "fn":
                cbinders.append(f"({tr.cname(n)}_calls : {' -> '.join(['Sc O'] * t[1] + ['nat'])})")
        cb = " ".join(cbinders)
        saved_guards, tr.guards = tr.guards, None
        if recursive:
            p = fuel[0]
            sts = list(body[1])
            er = tr.early_return(sts[0])
            others = [d for d in split_or(er[0]) if d != ("bin", "==", ("path", [p]), ("num", "0", None))]
            pred = p + "'"
            tr.fuel_var = (p, pred)
            env_s = dict(env)
            del env_s[p]
            rest_c = tr.cstmts(sts[1:], body[2], env_s)
            x0c = tr.cost(er[1], env)
            if others:
                c, _ = tr.ev(join_or(others), env_s)
                rest_c = tr.plus(tr.cost(join_or(others), env_s), f"(if {c} then {x0c} else\n   {rest_c})")
            out_lines.append(f"(* number of integrand calls made by [{it.name}] *)\n"
                             f"Fixpoint {it.name}_calls {cb} {{struct {p}}} : nat :=\n"
                             f"  match {p} with\n  | 0%nat => {x0c}\n  | S {pred} =>\n   {rest_c}\n  end.\n")
            tr.fuel_var = None
        else:
            ctxt = tr.cstmts(list(body[1]), body[2], env)
            out_lines.append(f"(* number of integrand calls made by [{it.name}] *)\n"
                             f"Definition {it.name}_calls {cb} : nat :=\n  {ctxt}.\n")
        tr.guards = saved_guards
    if accepts:
        # program-order conjunction of usize-underflow guards and asserts, with the lets they depend on
        zparams = " ".join(f"({tr.cname(n)} : Z)" for n, t in ptys if t == "Z")
        parts = tr.guards
        # keep only up to the last boolean guard
        last = max((i for i, g in enumerate(parts) if isinstance(g, str)), default=-1)
        parts = parts[:last + 1]
        txt = "true"
        for g in reversed(parts):
            if isinstance(g, str):
                txt = f"({g} && {txt})%bool"
            else:
                _, pat, x, t = g
                if t != "Z":
                    continue
                txt = f"(let {tr.cname(pat[1])} := {x} in {txt})"
        out_lines.append(f"(* [{it.name}] neither underflows a usize nor fails an assert *)\n"
                         f"Definition {it.name}_accepts {zparams} : bool :=\n  {txt}.\n")
        # the value each usize parameter has after the function's own re-bindings (`let divs = divs + divs % 2 - 2;`)
        for n, t in ptys:
            if t != "Z":
                continue
            v = tr.cname(n)
            for g in reversed([g for g in tr.guards if not isinstance(g, str) and g[1][0] == "pbind" and g[1][1] == n and g[3] == "Z"]):
                v = f"(let {tr.cname(n)} := {g[2]} in {v})"
            out_lines.append(f"(* the number [{it.name}] works with in place of its parameter [{n}] *)\n"
                             f"Definition {it.name}_norm_{n} {zparams} : Z :=\n  {v}.\n")
    tr.guards = None
    tr.sigs[it.name] = ([t for _, t in ptys], rty)


def find1(items, name, container=None):
    xs = [it for it in items if it.name == name and it.kind == "fn" and (container is None or container in it.container)]
    if len(xs) != 1:
        raise Untranslatable(items[0].file if items else "?", 0, f"function {name} not found exactly once")
    return xs[0]


def dispatch_arms(tr, it, names, out_lines, out, dim):
    """`match self { Integrator::X { fields } => call, … }`: arms whose body is a call of a translated function"""
    body = it.body
    if it.error or body is None or body[2] is None or body[2][0] != "match":
        raise Untranslatable(it.file, it.span[0], f"{it.name}: expected a single match on self")
    seen = set()
    for pat, guard, arm in body[2][2]:
        if pat[0] != "pstruct" or guard is not None:
            raise Untranslatable(it.file, it.span[0], f"{it.name}: arm pattern {pat}")
        variant = pat[1][-1]
        seen.add(variant)
        if variant not in names:
            continue
        fields = [f for f, _ in pat[2]]
        tr.cur = f"{it.name}::{variant}"
        env = {"func": ("func", ("fn", dim))}
        coords = ["a", "b"] if dim == 1 else ["a", "b", "c", "d"]
        for c in coords:
            env[c] = (tr.cname(c), "S")
        binders = [f"(func : {coq_type(('fn', dim))})"] + [f"({tr.cname(c)} : Sc O)" for c in coords]
        for f in fields:
            t = {"divs": "Z", "tolerance": "S", "max_depth": "N", "degree": "Z"}.get(f)
            if t is None:
                raise Untranslatable(it.file, it.span[0], f"{it.name}: field {f}")
            env[f] = (f, t)
            binders.append(f"({f} : {coq_type(t)})")
        txt, t = tr.ev(arm, env)
        if t != "V":
            raise Untranslatable(it.file, it.span[0], f"{it.name}: arm {variant} result type")
        out_lines.append(f"Definition {it.name}_{variant} {' '.join(binders)} : Vc O :=\n  {txt}.\n")
    missing = set(names) - seen
    if missing:
        raise Untranslatable(it.file, it.span[0], f"{it.name}: no arm for {sorted(missing)}")
    return sorted(seen)


def gen_integration(repo, out):
    path = os.path.join(repo, SRC)
    items = parse_file(path)
    uitems = parse_file(os.path.join(repo, UTILS))
    tr = Tr(path, items, {})
    lines = []
    adapter_lines = []
    lines.append(f"(* GENERATED by tools/gen/integration.py from {SRC} and {UTILS} (Steps::value) — do not edit;\n"
                 "   regenerated on every check run. *)\n"
                 "From Coq Require Import ZArith QArith List Bool.\n"
                 "From SpdVerif Require Import Base.NumOps.\n"
                 "Import ListNotations.\nLocal Open Scope Z_scope.\n\n"
                 "Section Integration.\nVariable O : num_ops.\n")
    # Steps::value (utils.rs), at T = f64
    sv = find1(uitems, "value", "Steps")
    out.span("integration:Steps::value", sv)
    tr.fname = sv.file
    tr.cur = "Steps::value"
    b = sv.body
    ok = (b is not None and not sv.error and len(b[1]) == 1 and b[1][0][0] == "let"
          and b[1][0][1] == ("ptuple", [("pbind", "start", False), ("pbind", "end", False)])
          and b[1][0][3] == ("mcall", ("path", ["self"]), "range", [])
          and b[2] is not None and b[2][0] == "if"
          and b[2][1] == ("bin", ">", ("mcall", ("path", ["self"]), "steps", []), ("num", "1", None)))
    if not ok:
        raise Untranslatable(sv.file, sv.span[0], "Steps::value: unexpected shape")
    # self.range() = (self.0, self.1); self.steps() = self.2; self.divisions() = self.steps() - 1  (checked below)
    for nm, expect in (("range", ("tuple", [("mcall", ("path", ["self"]), "start", []), ("mcall", ("path", ["self"]), "end", [])])),
                       ("start", ("field", ("path", ["self"]), "0")), ("end", ("field", ("path", ["self"]), "1")),
                       ("steps", ("field", ("path", ["self"]), "2")),
                       ("divisions", ("bin", "-", ("mcall", ("path", ["self"]), "steps", []), ("num", "1", None)))):
        h = find1(uitems, nm, "Steps")
        if h.error or h.body is None or h.body[1] or h.body[2] != expect:
            raise Untranslatable(h.file, h.span[0], f"Steps::{nm}: unexpected body")
        out.span(f"integration:Steps::{nm}", h)

    def subst(e):
        if isinstance(e, tuple):
            if e == ("mcall", ("path", ["self"]), "divisions", []):
                return ("paren", ("bin", "-", ("path", ["steps"]), ("num", "1", None)))
            return tuple(subst(x) for x in e)
        if isinstance(e, list):
            return [subst(x) for x in e]
        return e
    env = {"start": ("start", "S"), "end": ("end_", "S"), "steps": ("steps", "Z"), "index": ("index", "Z")}
    then_txt, tt = tr.block(subst(b[2][2]), env)
    else_txt, te = tr.block(subst(b[2][3]), env)
    if tt != "S" or te != "S":
        raise Untranslatable(sv.file, sv.span[0], "Steps::value: result type")
    lines.append("(* Steps(start, end, steps).value(index) at T = f64 *)\n"
                 "Definition steps_value (start end_ : Sc O) (steps : Z) (index : Z) : Sc O :=\n"
                 f"  if (1 <? steps) then {then_txt}\n  else {else_txt}.\n")
    tr.fname = path
    for name, acc in (("get_simpson_weight", False), ("simpson", True), ("simpson2d", True), ("quad_simpsons_mem", False),
                      ("quad_asr", False), ("simpson_adaptive", False), ("simpson_adaptive_2d", False)):
        it = find1(items, name)
        out.span("integration:" + name, it)
        translate_fn(tr, it, lines, accepts=acc, calls=(name != "get_simpson_weight"))
    # dispatch: the Simpson arms of Integrator::integrate / integrate2d
    for nm, dim in (("integrate", 1), ("integrate2d", 2)):
        it = find1(items, nm, "Integrator")
        out.span("integration:Integrator::" + nm, it)
        variants = dispatch_arms(tr, it, ["Simpson", "AdaptiveSimpson"], lines, out, dim)
        if variants != sorted(["Simpson", "AdaptiveSimpson", "GaussKonrod", "GaussLegendre", "ClenshawCurtis"]):
            raise Untranslatable(it.file, it.span[0], f"Integrator::{nm}: variants {variants}")
        dispatch_arms(tr, it, ["GaussLegendre", "ClenshawCurtis", "GaussKonrod"], adapter_lines, out, dim)
    # Default
    d = find1(items, "default", "Integrator")
    out.span("integration:Integrator::default", d)
    if d.body is None or d.body[2] is None or d.body[2][0] != "struct" or d.body[2][1][-1] != "Simpson" \
            or len(d.body[2][2]) != 1 or d.body[2][2][0][0] != "divs" or d.body[2][2][0][1][0] != "num":
        raise Untranslatable(d.file, d.span[0], "Integrator::default: expected Integrator::Simpson { divs: <literal> }")
    lines.append(f"Definition default_simpson_divs : Z := {int(d.body[2][2][0][1][1])}.\n")
    lines.append("End Integration.\n")
    lines.append("(* The arms of Integrator::integrate / integrate2d that hand the integrand to an external crate, with the external\n"
                 "   integrators as oracles: gl_integrate n a b g = gauss_quad::GaussLegendre::new(n).unwrap().integrate(a, b, g);\n"
                 "   cc_integrate g a b tol = quadrature::clenshaw_curtis::integrate(g, a, b, tol).integral;\n"
                 "   gk_integrate tol iters g a b = quad_rs::Integrator::default().relative_tolerance(tol).with_maximum_iter(iters)\n"
                 "     .integrate(Problem(g), a..b).unwrap().result.result.unwrap()  (a total function here: the panic of finding F5d is\n"
                 "   outside the model).  What is generated is the adapter: which closure is passed, argument order, re/im recombination. *)\n"
                 "Section Adapters.\nVariable O : num_ops.\n"
                 "Variable gl_integrate : Z -> Sc O -> Sc O -> (Sc O -> Sc O) -> Sc O.\n"
                 "Variable cc_integrate : (Sc O -> Sc O) -> Sc O -> Sc O -> Sc O -> Sc O.\n"
                 "Variable gk_integrate : Sc O -> nat -> (Vc O -> Vc O) -> Vc O -> Vc O -> Vc O.\n")
    lines.extend(adapter_lines)
    lines.append("End Adapters.\n")
    out.write("Integration.v", "\n".join(lines))


GENS = {"integration": gen_integration}
