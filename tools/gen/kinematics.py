"""Generator `kinematics`: coq/Gen/Kinematics.v from
   src/beam/mod.rs   Beam::effective_index_of_refraction, phase_velocity, group_velocity, group_index, average_transit_time
   src/utils.rs      phase_velocity, wavenumber_to_frequency

The bodies are run symbolically with the Evaluator of tools/rs2coq.py (through fresnel.FEval) on a symbolic beam
    self = Beam { frequency: omega, direction: d, polarization: p }
with
    crystal_setup.index_along(l, dir, pol)  ->  index l dir pol          (CrystalSetup::index_along, property C02: an oracle here)
    crystal_setup.length                    ->  L
    pp.as_ref().signed_period()             ->  period                   (PeriodicPoling::On: sign * period)
                                            ->  +infinity                (PeriodicPoling::Off; `x / +infinity` is 0 in binary64:
                                                                          emitted as the separate `_off` definitions)
    derivative_at(closure, x)               ->  derivative_at_gen (fun v => closure v) x     (Gen/Fresnel.v, translated from
                                                                          src/math/differentiation.rs by the `fresnel` generator)
    v.into_inner() on a unit vector -> v;  v.norm() -> sqrt(vx^2 + vy^2 + vz^2)
Anything else raises Untranslatable (a broken obligation for whoever imports Gen/Kinematics.v).
"""
import os
import sys

sys.path.insert(0, os.path.dirname(os.path.dirname(os.path.abspath(__file__))))
sys.path.insert(0, os.path.dirname(os.path.abspath(__file__)))
from rustparse import parse_file, Untranslatable  # noqa: E402
from rs2coq import R, HEADER, load_all  # noqa: E402
from fresnel import FEval, vec_term, vec_var, find_fn  # noqa: E402

INF = R("@INFINITY@")
CONSTS = {"FRAC_PI_2": R("(PI / 2)"), "TAU": R("(2 * PI)")}


class KEval(FEval):
    def arith(self, op, a, b, e=None):
        if b is INF or (self.is_r(b) and str(b) == str(INF)):
            if op == "/" and self.is_r(a) and str(a) != str(INF):
                return R("0")            # finite / +infinity = 0 in IEEE-754
            self.fail("arithmetic on +infinity other than finite / +infinity", e)
        if self.is_r(a) and str(a) == str(INF):
            self.fail("arithmetic on +infinity", e)
        return super().arith(op, a, b, e)

    def ev(self, e, env):
        if e[0] == "field":
            v = self.ev(e[1], env)
            if v == ("SETUP",):
                if e[2] == "length":
                    return R("L")
                self.fail(f"crystal_setup.{e[2]}", e)
        return super().ev(e, env)

    def call(self, e, env):
        f = e[1]
        if f[0] == "path" and f[1][-1] == "derivative_at" and len(e[2]) == 2:
            cl = self.ev(e[2][0], env)
            pos = self.ev(e[2][1], env)
            if not (isinstance(cl, tuple) and cl[0] == "CLOSURE" and len(cl[1]) == 1 and cl[1][0][0] == "pbind" and self.is_r(pos)):
                self.fail("derivative_at is not applied to (one-argument closure, real)", e)
            var = cl[1][0][1]
            bodyv = self.apply_closure(cl, [R(var)], e)
            if not self.is_r(bodyv):
                self.fail("derivative_at: the closure does not return a real", e)
            return self.paren(f"derivative_at_gen (fun {var} : R => {bodyv}) {pos}")
        return super().call(e, env)

    def mcall(self, e, env):
        recv, name, argexprs = e[1], e[2], e[3]
        if name == "index_along":
            rv = self.ev(recv, env)
            args = [self.ev(a, env) for a in argexprs]
            if rv != ("SETUP",) or len(args) != 3 or not self.is_r(args[0]) or args[2] != ("PVAR",) \
                    or not (isinstance(args[1], tuple) and args[1][0] == "V3"):
                self.fail("index_along is not called as crystal_setup.index_along(<wavelength>, <direction>, <polarization>)", e)
            return self.paren(f"index {args[0]} {vec_term(args[1])} p")
        if name in ("as_ref",) and not argexprs:
            rv = self.ev(recv, env)
            if isinstance(rv, tuple) and rv[0] == "PP":
                return rv
        if name == "signed_period" and not argexprs:
            rv = self.ev(recv, env)
            if isinstance(rv, tuple) and rv[0] == "PP":
                return R("period") if rv[1] == "on" else INF
            self.fail("signed_period receiver", e)
        if name in ("into_inner", "norm") and not argexprs:
            rv = self.ev(recv, env)
            if isinstance(rv, tuple) and rv[0] == "V3":
                if name == "into_inner":
                    return rv
                x, y, z = rv[1]
                return self.paren(f"sqrt ((({x} * {x}) + ({y} * {y})) + ({z} * {z}))")
        return super().mcall(e, env)


def beam_self():
    return ("STRUCT", "Beam", {"frequency": R("omega"), "direction": vec_var("d"), "polarization": ("PVAR",)})


BEAM_ARGS = "(index : R -> vec -> polarization -> R) (omega : R) (d : vec) (p : polarization)"


def gen_kinematics(repo, out):
    allidx = load_all(repo)
    bm_path = os.path.join(repo, "src/beam/mod.rs")
    ut_path = os.path.join(repo, "src/utils.rs")
    bm_items = parse_file(bm_path)
    ut_items = parse_file(ut_path)
    body = [HEADER.format(src="src/beam/mod.rs (kinematics), src/utils.rs"),
            "From SpdVerif Require Import Spec.CrystalTypes Model.Optics Gen.Fresnel.\n",
            "(* index l dir pol = CrystalSetup::index_along(l, dir, pol) of the setup the beam travels in; omega, d, p = the beam's\n"
            "   frequency, unit direction and polarization; L = crystal_setup.length; period = PeriodicPoling::signed_period() of a poled\n"
            "   crystal.  The `_off` definitions are the same bodies with PeriodicPoling::Off, whose signed period is +infinity:\n"
            "   `lambda_o / +infinity` is 0 in binary64. *)\n"]
    for nm, extra, doc in (("effective_index_of_refraction", "", "n + lambda_o / signed_period"),
                           ("phase_velocity", "", "C_ / n_eff"),
                           ("group_velocity", "", "vp * (1 + (lambda_o / n_eff) * dn/dlambda), dn/dlambda by derivative_at"),
                           ("group_index", "", "C_ / group_velocity"),
                           ("average_transit_time", " (L : R)", "(|0.5 L / d_z| |d|) / group_velocity")):
        it = find_fn(bm_items, nm, "Beam", bm_path)
        out.span("kinematics:Beam::" + nm, it)
        if [pt[0] for pt in it.params] != [("pbind", "self", False), ("pbind", "crystal_setup", False), ("pbind", "pp", False)]:
            raise Untranslatable(bm_path, it.span[0], f"Beam::{nm}: parameters are not (&self, crystal_setup, pp)")
        for mode in ("on", "off"):
            ev = KEval(bm_path, bm_items, allidx, consts=CONSTS)
            val = ev.call_fn(it, [("SETUP",), ("PP", mode)], self_val=beam_self())
            if not ev.is_r(val):
                raise Untranslatable(bm_path, it.span[0], f"Beam::{nm} does not return a real")
            if str(INF) in str(val):
                raise Untranslatable(bm_path, it.span[0], f"Beam::{nm}: +infinity survives in the result")
            per = " (period : R)" if mode == "on" else ""
            suffix = "" if mode == "on" else "_off"
            body.append(f"(* Beam::{nm}: {doc} *)\n" if mode == "on" else "")
            body.append(f"Definition beam_{nm}{suffix}_gen {BEAM_ARGS}{extra}{per} : R :=\n  {val}.\n")
    # utils.rs
    for nm, args in (("phase_velocity", ["omega", "k"]), ("wavenumber_to_frequency", ["k", "n"])):
        it = find_fn(ut_items, nm, None, ut_path)
        out.span("kinematics:utils::" + nm, it)
        if [pt[0][1] for pt in it.params] != args:
            raise Untranslatable(ut_path, it.span[0], f"{nm}: parameters are not {args}")
        ev = KEval(ut_path, ut_items, allidx, consts=CONSTS)
        val = ev.call_fn(it, [R(a) for a in args])
        if not ev.is_r(val):
            raise Untranslatable(ut_path, it.span[0], f"{nm} does not return a real")
        body.append(f"Definition {nm}_gen ({' '.join(args)} : R) : R :=\n  {val}.\n")
    out.write("Kinematics.v", "\n".join(b for b in body if b))


GENS = {"kinematics": gen_kinematics}
