"""Generator `pm_simpson` (C05): src/math/integration.rs  get_simpson_weight, simpson, Integrator::default  ->  coq/Gen/PMSimpson.v.

These are index/iterator code (usize arithmetic, ranges, closures over tuples) outside the expression subset of the Evaluator; their
ASTs are matched against templates whose numeric literals are holes, and the Coq rendering is instantiated with the literals found
(weights at the ends / odd / even nodes, the `divs + divs % k - c` normalisation, the 1/3 factor, the parallel threshold, the default
divs).  Any structural change is UNTRANSLATABLE."""
import os
import sys

sys.path.insert(0, os.path.dirname(os.path.dirname(os.path.abspath(__file__))))
from rustparse import parse_file, Untranslatable  # noqa: E402
import rs2coq  # noqa: E402


def unify(ast, tpl, b):
    if isinstance(tpl, tuple) and tpl and tpl[0] == "HOLE":
        if not (isinstance(ast, tuple) and ast[0] == "num"):
            return False
        b[tpl[1]] = ast[1]
        return True
    if isinstance(tpl, (tuple, list)):
        if not isinstance(ast, type(tpl)) or len(ast) != len(tpl):
            return False
        return all(unify(a, t, b) for a, t in zip(ast, tpl))
    return ast == tpl


def P(n):
    return ("path", [n])


H = lambda n: ("HOLE", n)
WEIGHT_TPL = ("block", [], ("if", ("bin", "||", ("bin", "==", P("n"), H("zero")), ("bin", "==", P("n"), P("divs"))),
                            ("block", [], H("w_end")),
                            ("if", ("mcall", P("n"), "is_odd", []), ("block", [], H("w_odd")), ("block", [], H("w_even")))))
PAIR = ("closure", [("pbind", "n", False)], ("tuple", [P("n"), ("call", P("get_simpson_weight"), [P("n"), P("divs")])]))
RANGE = ("paren", ("range", H("r0"), P("divs"), True))
SIMPSON_TPL = ("block", [
    ("let", ("pbind", "divs", False), None, ("bin", "-", ("bin", "+", P("divs"), ("bin", "%", P("divs"), H("mod"))), H("sub"))),
    ("expr", ("macro", "assert", [("bin", ">=", P("divs"), H("min")), ("str", "Steps too low")])),
    ("let", ("pbind", "dx", False), None, ("bin", "/", ("paren", ("bin", "-", P("b"), P("a"))), ("paren", ("cast", P("divs"), "f64")))),
    ("let", ("pbind", "intg", False), None,
     ("closure", [("ptuple", [("pbind", "i", False), ("pbind", "a_n", False)])],
      ("block", [("let", ("pbind", "x", False), None, ("bin", "+", P("a"), ("bin", "*", ("paren", ("cast", P("i"), "f64")), P("dx"))))],
       ("bin", "*", ("mcall", ("call", P("func"), [P("x")]), "into", []), P("a_n"))))),
    ("let", ("pbind", "result", False), "Complex < f64 >",
     ("if", ("bin", "<", P("divs"), H("par")),
      ("block", [], ("mcall", ("mcall", ("mcall", RANGE, "map", [PAIR]), "map", [P("intg")]), "sum", [])),
      ("block", [], ("mcall", ("mcall", ("mcall", ("mcall", RANGE, "into_par_iter", []), "map", [PAIR]), "map", [P("intg")]), "sum", [])))),
], ("bin", "*", P("result"), ("paren", ("bin", "/", P("dx"), H("third")))))
DEFAULT_TPL = ("block", [], ("struct", ["Integrator", "Simpson"], [("divs", H("default_divs"))], None))


def gen_pm_simpson(repo, out):
    path = os.path.join(repo, "src/math/integration.rs")
    items = parse_file(path)

    def get(name, container=None):
        its = [i for i in items if i.kind == "fn" and i.name == name and (container is None or container in i.container)]
        if len(its) != 1:
            raise Untranslatable(path, 0, f"fn {name} not found (or ambiguous)")
        if its[0].error:
            raise its[0].error
        return its[0]
    b = {}
    for name, tpl, cont in (("get_simpson_weight", WEIGHT_TPL, None), ("simpson", SIMPSON_TPL, None), ("default", DEFAULT_TPL, "Integrator")):
        it = get(name, cont)
        out.span(f"integration::{name}", it)
        if not unify(it.body, tpl, b):
            raise Untranslatable(path, it.span[0], f"{name}: body no longer has the shape of the modelled Simpson rule")
    num = lambda k: rs2coq.num_to_coq(b[k])
    ints = {k: int(b[k]) for k in ("zero", "mod", "sub", "min", "par", "r0", "default_divs")}
    if ints["zero"] != 0 or ints["r0"] != 0:
        raise Untranslatable(path, 0, "simpson: node range / end test no longer start at 0")
    txt = rs2coq.HEADER.format(src="src/math/integration.rs") + f"""
(* fn get_simpson_weight(n, divs) *)
Definition gen_simpson_weight (n divs : nat) : R :=
  if orb (Nat.eqb n 0) (Nat.eqb n divs) then {num('w_end')} else if Nat.odd n then {num('w_odd')} else {num('w_even')}.

(* `let divs = divs + divs % {ints['mod']} - {ints['sub']}` (usize) and `assert!(divs >= {ints['min']})` *)
Definition gen_simpson_divs (divs : nat) : nat := divs + Nat.modulo divs {ints['mod']} - {ints['sub']}.
Definition gen_simpson_min_divs : nat := {ints['min']}.

(* fn simpson(func, a, b, divs), one real component (weights and dx are real): sum over n = 0 ..= divs' of func(a + n dx) * weight,
   times dx / {num('third')}; the sequential (< {ints['par']} nodes) and the rayon branch compute the same sum *)
Definition gen_simpson (f : R -> R) (a b : R) (divs : nat) : R :=
  let d := gen_simpson_divs divs in
  let dx := (b - a) / INR d in
  fold_right Rplus 0 (map (fun n => f (a + INR n * dx) * gen_simpson_weight n d) (seq 0 (S d))) * (dx / {num('third')}).

(* impl Default for Integrator *)
Definition gen_default_simpson_divs : nat := {ints['default_divs']}.
"""
    out.write("PMSimpson.v", txt)


GENS = {"pm_simpson": gen_pm_simpson}
