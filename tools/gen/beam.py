"""Generator `beam` (C13): coq/Gen/Beam.v from
   src/beam/mod.rs   struct Beam, Beam::new, every public setter (as state transformers), From<Beam> for PumpBeam,
                     calc_external_theta_from_internal, calc_internal_theta_from_external (cost function, seeds, bounds, sign)
   src/math/mod.rs   normalize_angle, normalize_angle_signed, fwhm_to_sigma, fwhm_to_waist, waist_to_fwhm
   src/utils.rs      Celsius/Kelvin, frequency <-> vacuum wavelength

Setters mutate `self`; they are interpreted statement by statement on a symbolic record (field -> Coq term):
   self.f = e;            updates field f (e is evaluated with the *current* field values)
   self.m(args);          runs method m of Beam on the same record
   let x = e;             binds x; `Self::calc_internal_theta_from_external(self, a, crystal_setup)` becomes the oracle `snell_inv <state> a`
   Self { f: e, .. }      / Self { f: e, ..self }
Anything else raises Untranslatable.  External kernels: math::nelder_mead_1d is a parameter `nm` (argmin Nelder-Mead), the
crystal's index along a direction is a parameter `n_along` (C02's subject).
"""
import os
import re
import sys

sys.path.insert(0, os.path.dirname(os.path.dirname(os.path.abspath(__file__))))
sys.path.insert(0, os.path.dirname(os.path.abspath(__file__)))
from rustparse import parse_file, Untranslatable  # noqa: E402
from rs2coq import R, HEADER, load_all  # noqa: E402
from fresnel import FEval, vec_term, vec_var, find_fn  # noqa: E402

# std::f64::consts used by the translated functions
CONSTS = {"FRAC_PI_2": R("(PI / 2)"), "TAU": R("(2 * PI)")}
FIELD_TYPES = {"BeamWaist": "R", "Frequency": "R", "PolarizationType": "polarization", "Angle": "R", "Direction": "vec"}


class BEval(FEval):
    """+ num::abs, the index oracle, the optimiser oracle"""

    def call(self, e, env):
        f = e[1]
        if f[0] == "path" and f[1][-2:] == ["num", "abs"] and len(e[2]) == 1:
            v = self.ev(e[2][0], env)
            if not self.is_r(v):
                self.fail("num::abs of non-real", e)
            return self.paren(f"Rabs {v}")
        if f[0] == "path" and f[1][-1] == "nelder_mead_1d":
            a = e[2]
            if len(a) != 6:
                self.fail("nelder_mead_1d arity", e)
            cl = self.ev(a[0], env)
            seeds = self.ev(a[1], env)
            rest = [self.ev(x, env) for x in a[2:]]
            if not (isinstance(cl, tuple) and cl[0] == "CLOSURE" and len(cl[1]) == 1 and cl[1][0][0] == "pbind"):
                self.fail("nelder_mead_1d: cost is not a one-argument closure", e)
            if not (isinstance(seeds, tuple) and seeds[0] == "TUP" and len(seeds[1]) == 2 and all(self.is_r(x) for x in rest)):
                self.fail("nelder_mead_1d: arguments", e)
            var = cl[1][0][1]
            cost = self.apply_closure(cl, [R(var)], e)
            self.nm_call = {"var": var, "cost": cost, "seeds": seeds[1], "rest": rest}
            return self.paren(f"nm (fun {var} : R => {cost}) {seeds[1][0]} {seeds[1][1]} {rest[0]} {rest[1]} {rest[2]} {rest[3]}")
        return super().call(e, env)

    def mcall(self, e, env):
        if e[2] == "index_along":
            rv = self.ev(e[1], env)
            args = [self.ev(a, env) for a in e[3]]
            if rv != ("SETUP",) or len(args) != 3 or args[0] != self.expect_wavelength or args[2] != self.expect_pol \
                    or not (isinstance(args[1], tuple) and args[1][0] == "V3"):
                self.fail("index_along is not called as crystal_setup.index_along(beam.vacuum_wavelength(), direction, beam.polarization())", e)
            return R(f"(n_along {vec_term(args[1])})")
        return super().mcall(e, env)


def to_coq(v, where):
    if isinstance(v, R):
        return str(v)
    if isinstance(v, tuple) and v[0] == "V3":
        return vec_term(v)
    if isinstance(v, tuple) and v[0] == "OPAQUE":
        return v[1]
    raise Untranslatable(where, 0, f"cannot print value {v!r}"[:200])


class Interp:
    def __init__(self, path, items, allidx, fields):
        self.path, self.items, self.allidx, self.fields = path, items, allidx, fields

    def ev(self):
        return BEval(self.path, self.items, self.allidx, consts=dict(CONSTS))

    def init_state(self, var):
        st = {}
        for f, ty in self.fields:
            acc = f"(b_{f} {var})"
            st[f] = R(acc) if ty == "R" else (vec_var(acc) if ty == "vec" else ("OPAQUE", acc))
        return st

    def record(self, st):
        return "{| " + "; ".join(f"b_{f} := {to_coq(st[f], self.path)}" for f, _ in self.fields) + " |}"

    def method(self, name):
        return find_fn(self.items, name, "Beam", self.path)

    def bind_params(self, it, args):
        params = [p for p in it.params if p[0] != ("pbind", "self", False)]
        if len(params) != len(args):
            raise Untranslatable(self.path, it.span[0], f"arity of {it.name}")
        env = {}
        for (pat, _ty), a in zip(params, args):
            if pat[0] != "pbind":
                raise Untranslatable(self.path, it.span[0], f"parameter pattern of {it.name}")
            env[pat[1]] = a
        return env

    def run(self, it, st, args, depth=0, orig=None):
        """execute method `it` on the state dict `st` (mutated in place); returns the state"""
        if depth > 6:
            raise Untranslatable(self.path, it.span[0], "setter recursion")
        if it.error:
            raise it.error
        env = self.bind_params(it, args)
        ev = self.ev()
        blk = it.body

        def cur_env():
            e2 = dict(env)
            e2["self"] = ("STRUCT", "Beam", dict(st))
            return e2
        for s in blk[1]:
            if s[0] == "use":
                continue
            if s[0] == "assign" and s[1] == "=" and s[2][0] == "field" and s[2][1] == ("path", ["self"]) and s[2][2] in st:
                st[s[2][2]] = ev.ev(s[3], cur_env())
            elif s[0] == "expr" and s[1][0] == "mcall" and s[1][1] == ("path", ["self"]):
                sub = self.method(s[1][2])
                a = [ev.ev(x, cur_env()) for x in s[1][3]]
                self.run(sub, st, a, depth + 1)
            elif s[0] == "let" and s[1][0] == "pbind" and s[3] is not None:
                rhs = s[3]
                if rhs[0] == "call" and rhs[1] == ("path", ["Self", "calc_internal_theta_from_external"]):
                    if len(rhs[2]) != 3 or rhs[2][0] != ("path", ["self"]) or rhs[2][2] != ("path", ["crystal_setup"]):
                        raise Untranslatable(self.path, it.span[0], "calc_internal_theta_from_external call shape")
                    a = ev.ev(rhs[2][1], cur_env())
                    env[s[1][1]] = R(f"(snell_inv {self.record(st)} {a})")
                else:
                    env[s[1][1]] = ev.ev(rhs, cur_env())
            else:
                raise Untranslatable(self.path, it.span[0], f"{it.name}: unsupported statement {s[0]}")
        tail = blk[2]
        if tail is None or tail == ("path", ["self"]):
            return st
        if tail[0] == "struct" and tail[1] == ["Self"]:
            vals = {f: ev.ev(x, cur_env()) for f, x in tail[2]}
            if tail[3] is None:
                if sorted(vals) != sorted(st):
                    raise Untranslatable(self.path, it.span[0], f"{it.name}: struct literal fields {sorted(vals)}")
            elif tail[3] != ("path", ["self"]):
                raise Untranslatable(self.path, it.span[0], f"{it.name}: struct base")
            st.update(vals)
            return st
        raise Untranslatable(self.path, it.span[0], f"{it.name}: unsupported tail")


def gen_beam(repo, out):
    allidx = load_all(repo)
    bm_path = os.path.join(repo, "src/beam/mod.rs")
    bm_items = parse_file(bm_path)
    src = open(bm_path).read()
    m = re.search(r"pub struct Beam \{(.*?)\n\}", src, re.S)
    if not m:
        raise Untranslatable(bm_path, 0, "struct Beam not found")
    decl = re.sub(r"//[^\n]*", "", m.group(1))
    fields = []
    for fm in re.finditer(r"(?:pub\s+)?([a-z_]+)\s*:\s*([A-Za-z]+)\s*,", decl):
        if fm.group(2) not in FIELD_TYPES:
            raise Untranslatable(bm_path, 0, f"Beam field {fm.group(1)} has unexpected type {fm.group(2)}")
        fields.append((fm.group(1), FIELD_TYPES[fm.group(2)]))
    if [f for f, _ in fields] != ["waist", "frequency", "polarization", "theta", "phi", "direction"]:
        raise Untranslatable(bm_path, 0, f"Beam fields changed: {[f for f, _ in fields]}")
    body = [HEADER.format(src="src/beam/mod.rs, src/math/mod.rs, src/utils.rs"),
            "From SpdVerif Require Import Model.Optics.\n",
            "Record beam := { " + "; ".join(f"b_{f} : {t}" for f, t in fields) + " }.\n"]
    ip = Interp(bm_path, bm_items, allidx, fields)

    # ---- plain functions of math/mod.rs and utils.rs
    mpath = os.path.join(repo, "src/math/mod.rs")
    upath = os.path.join(repo, "src/utils.rs")
    mitems, uitems = parse_file(mpath), parse_file(upath)
    for path, items, names in ((mpath, mitems, ["normalize_angle", "normalize_angle_signed", "fwhm_to_sigma", "fwhm_to_waist", "waist_to_fwhm"]),
                               (upath, uitems, ["from_celsius_to_kelvin", "from_kelvin_to_celsius", "vacuum_wavelength_to_frequency",
                                                "frequency_to_vacuum_wavelength"])):
        for nme in names:
            it = find_fn(items, nme, None, path)
            out.span(f"{os.path.basename(os.path.dirname(path)) if 'math' in path else 'utils'}::{nme}", it)
            ev = BEval(path, items, allidx, consts=dict(CONSTS))
            pn = [p[0][1] for p in it.params]
            v = ev.call_fn(it, [R(x) for x in pn])
            if not ev.is_r(v):
                raise Untranslatable(path, it.span[0], f"{nme} does not return a real")
            body.append(f"Definition {nme}_gen ({' '.join(pn)} : R) : R :=\n  {v}.\n")

    # ---- constructor and setters
    it = find_fn(bm_items, "new", "Beam", bm_path)
    out.span("beam::Beam::new", it)
    st = {f: None for f, _ in fields}
    args = [("OPAQUE", "polarization"), R("phi"), R("theta"), R("vacuum_wavelength"), R("waist")]
    st = ip.run(it, st, args)
    body.append(f"Definition beam_new_gen (polarization : polarization) (phi theta vacuum_wavelength waist : R) : beam :=\n  {ip.record(st)}.\n")

    setters = [("set_phi", ["phi"], []), ("set_theta_internal", ["theta"], []), ("set_angles", ["phi", "theta"], []),
               ("set_vacuum_wavelength", ["lambda_o"], []), ("set_frequency", ["omega"], []), ("set_waist", ["waist"], []),
               ("set_polarization", [], ["polarization"]), ("with_polarization", [], ["polarization"])]
    for nme, rargs, pargs in setters:
        it = ip.method(nme)
        out.span(f"beam::Beam::{nme}", it)
        pn = [p[0][1] for p in it.params if p[0] != ("pbind", "self", False)]
        if pn != rargs + pargs:
            raise Untranslatable(bm_path, it.span[0], f"{nme} parameters {pn}")
        st = ip.run(it, ip.init_state("s"), [R(x) for x in rargs] + [("OPAQUE", x) for x in pargs])
        sig = "".join(f" ({x} : R)" for x in rargs) + "".join(f" ({x} : polarization)" for x in pargs)
        body.append(f"Definition {nme}_gen (s : beam){sig} : beam :=\n  {ip.record(st)}.\n")
    out.span("beam::Beam::update_direction", ip.method("update_direction"))

    it = ip.method("set_theta_external")
    out.span("beam::Beam::set_theta_external", it)
    pn = [p[0][1] for p in it.params if p[0] != ("pbind", "self", False)]
    if pn != ["external", "crystal_setup"]:
        raise Untranslatable(bm_path, it.span[0], f"set_theta_external parameters {pn}")
    st = ip.run(it, ip.init_state("s"), [R("external"), ("SETUP",)])
    body.append("(* snell_inv s a: Beam::calc_internal_theta_from_external(s, a, crystal_setup) *)\n"
                f"Definition set_theta_external_gen (snell_inv : beam -> R -> R) (s : beam) (external : R) : beam :=\n  {ip.record(st)}.\n")

    # ---- From<Beam> for PumpBeam
    it = find_fn(bm_items, "from", "PumpBeam", bm_path)
    out.span("beam::PumpBeam::from", it)
    b = it.body
    ok = (len(b[1]) == 2 and b[1][0] == ("let", ("pbind", "pump", True), None, ("call", ("path", ["Self", "new"]), [("path", ["value"])]))
          and b[1][1][0] == "expr" and b[1][1][1][0] == "mcall" and b[1][1][1][1] == ("field", ("path", ["pump"]), "0")
          and b[2] == ("path", ["pump"]))
    newit = find_fn(bm_items, "new", "PumpBeam", bm_path)
    ok = ok and newit.body == ("block", [], ("call", ("path", ["Self"]), [("path", ["beam"])]))
    if not ok:
        raise Untranslatable(bm_path, it.span[0], "From<Beam> for PumpBeam is not `let mut pump = Self::new(value); pump.0.<setter>(..); pump`")
    call = b[1][1][1]
    ev = ip.ev()
    a = [ev.ev(x, {}) for x in call[3]]
    st = ip.run(ip.method(call[2]), ip.init_state("s"), a)
    body.append(f"Definition pump_from_beam_gen (s : beam) : beam :=\n  {ip.record(st)}.\n")

    # ---- Snell
    beam_val = ("STRUCT", "Beam", ip.init_state("s"))
    it = find_fn(bm_items, "calc_external_theta_from_internal", "Beam", bm_path)
    out.span("beam::Beam::calc_external_theta_from_internal", it)
    ev = ip.ev()
    ev.expect_wavelength = ev.call_fn(ip.method("vacuum_wavelength"), [], self_val=beam_val)
    ev.expect_pol = ("OPAQUE", "(b_polarization s)")
    v = ev.call_fn(it, [beam_val, R("internal"), ("SETUP",)])
    if not ev.is_r(v):
        raise Untranslatable(bm_path, it.span[0], "calc_external_theta_from_internal does not return a real")
    body.append("(* n_along d: crystal_setup.index_along(s.vacuum_wavelength(), d, s.polarization()) *)\n"
                f"Definition calc_external_theta_from_internal_gen (n_along : vec -> R) (s : beam) (internal : R) : R :=\n  {v}.\n")
    it2 = ip.method("theta_external")
    out.span("beam::Beam::theta_external", it2)
    if it2.body != ("block", [], ("call", ("path", ["Self", "calc_external_theta_from_internal"]),
                                  [("path", ["self"]), ("field", ("path", ["self"]), "theta"), ("path", ["crystal_setup"])])):
        raise Untranslatable(bm_path, it2.span[0], "theta_external is not calc_external_theta_from_internal(self, self.theta, crystal_setup)")
    body.append("Definition theta_external_gen (n_along : vec -> R) (s : beam) : R :=\n"
                "  calc_external_theta_from_internal_gen n_along s (b_theta s).\n")

    it = find_fn(bm_items, "calc_internal_theta_from_external", "Beam", bm_path)
    out.span("beam::Beam::calc_internal_theta_from_external", it)
    ev = ip.ev()
    ev.expect_wavelength = ev.call_fn(ip.method("vacuum_wavelength"), [], self_val=beam_val)
    ev.expect_pol = ("OPAQUE", "(b_polarization s)")
    ev.nm_call = None
    v = ev.call_fn(it, [beam_val, R("external"), ("SETUP",)])
    if not ev.is_r(v) or ev.nm_call is None:
        raise Untranslatable(bm_path, it.span[0], "calc_internal_theta_from_external: no nelder_mead_1d call / not a real")
    nm = ev.nm_call
    body.append("(* the cost function handed to the optimiser *)\n"
                f"Definition snell_cost_gen (n_along : vec -> R) (s : beam) (external {nm['var']} : R) : R :=\n  {nm['cost']}.\n")
    body.append(f"Definition snell_seed0_gen (external : R) : R :=\n  {nm['seeds'][0]}.\n")
    body.append(f"Definition snell_seed1_gen (external : R) : R :=\n  {nm['seeds'][1]}.\n")
    body.append(f"Definition snell_max_iter_gen : R := {nm['rest'][0]}.\nDefinition snell_lower_gen : R := {nm['rest'][1]}.\n"
                f"Definition snell_upper_gen : R := {nm['rest'][2]}.\nDefinition snell_tolerance_gen : R := {nm['rest'][3]}.\n")
    body.append("(* nm cost seed0 seed1 max_iter lower upper tolerance: math::nelder_mead_1d (argmin) *)\n"
                "Definition calc_internal_theta_from_external_gen (nm : (R -> R) -> R -> R -> R -> R -> R -> R -> R)\n"
                f"    (n_along : vec -> R) (s : beam) (external : R) : R :=\n  {v}.\n")
    out.write("Beam.v", "\n".join(body))


GENS = {"beam": gen_beam}
