"""Generator `gridres`: coq/Gen/GridRes.v from
   src/jsa/si_iterator.rs   {FrequencySpace, SumDiffFrequencySpace, WavelengthSpace}::{set_resolution, with_resolution},
                            SumDiffFrequencySpace::new
   src/utils.rs             Steps2D::new, Steps2D::ranges

These functions only move tuple components around.  They are interpreted on nested tuples of symbols:
    a space                 = newtype( Steps2D( (x0, x1, nx), (y0, y1, ny) ) )
    self.0 .1 .2 = e;       replaces the component at that path
    Self(..) / Steps2D(..)  builds a tuple struct
    self.m(args);           another method of the same impl, run on the current value (it returns &mut Self)
The result is written in the representation of Gen/Grid.v: a space or a Steps2D is ((x0, x1, nx), (y0, y1, ny)).
Anything else raises Untranslatable.
"""
import copy
import os
import sys

sys.path.insert(0, os.path.dirname(os.path.dirname(os.path.abspath(__file__))))
from rustparse import parse_file, Untranslatable  # noqa: E402

SI = "src/jsa/si_iterator.rs"
UT = "src/utils.rs"
SPACES = (("FrequencySpace", "fs"), ("SumDiffFrequencySpace", "sd"), ("WavelengthSpace", "ws"))


class G:
    def __init__(self, path, items, impl):
        self.path, self.items, self.impl = path, items, impl
        self.spans = []

    def fail(self, it, what, e=None):
        raise Untranslatable(self.path, it.span[0], f"{self.impl}::{it.name}: {what}" + (f" in {str(e)[:120]}" if e is not None else ""))

    def find(self, name):
        its = [i for i in self.items if i.kind == "fn" and i.name == name and i.container[-1:] == [self.impl]]
        if len(its) != 1 or its[0].error or its[0].body is None:
            raise Untranslatable(self.path, 0, f"{self.impl}::{name} not found exactly once")
        return its[0]

    def ev(self, it, e, env):
        k = e[0]
        if k == "paren":
            return self.ev(it, e[1], env)
        if k == "unary" and e[1] in ("&", "*"):
            return self.ev(it, e[2], env)
        if k == "path" and len(e[1]) == 1 and e[1][0] in env:
            return env[e[1][0]]
        if k == "field" and e[2].isdigit():
            v = self.ev(it, e[1], env)
            if not isinstance(v, list) or int(e[2]) >= len(v):
                self.fail(it, "tuple index out of shape", e)
            return v[int(e[2])]
        if k == "tuple":
            return [self.ev(it, x, env) for x in e[1]]
        if k == "call" and e[1][0] == "path" and e[1][1] in (["Self"], ["Steps2D"], [self.impl]):
            return [self.ev(it, x, env) for x in e[2]]
        self.fail(it, "expression form", e)

    def assign(self, it, lhs, val, env):
        path = []
        while lhs[0] == "field" and lhs[2].isdigit():
            path.append(int(lhs[2]))
            lhs = lhs[1]
        if lhs != ("path", ["self"]) or not path:
            self.fail(it, "assignment target", lhs)
        node = env["self"]
        for ix in reversed(path[1:]):
            if not isinstance(node, list) or ix >= len(node):
                self.fail(it, "assignment path out of shape", lhs)
            node = node[ix]
        if not isinstance(node, list) or path[0] >= len(node) or isinstance(node[path[0]], list) != isinstance(val, list):
            self.fail(it, "assignment shape", lhs)
        node[path[0]] = val

    def run(self, name, selfv, args, depth=0):
        it = self.find(name)
        if it not in self.spans:
            self.spans.append(it)
        if depth > 3:
            self.fail(it, "call depth")
        params = list(it.params)
        env = {}
        if params and params[0][0] == ("pbind", "self", False):
            env["self"] = copy.deepcopy(selfv)
            params = params[1:]
        if len(params) != len(args) or any(p[0][0] != "pbind" for p in params):
            self.fail(it, "parameters")
        for (pat, _ty), a in zip(params, args):
            env[pat[1]] = a
        for st in it.body[1]:
            if st[0] == "assign" and st[1] == "=":
                self.assign(it, st[2], self.ev(it, st[3], env), env)
            elif st[0] == "expr" and st[1][0] == "mcall" and st[1][1] == ("path", ["self"]):
                env["self"] = self.run(st[1][2], env["self"], [self.ev(it, a, env) for a in st[1][3]], depth + 1)
            else:
                self.fail(it, "statement", st)
        if it.body[2] is None:
            self.fail(it, "no tail expression")
        return self.ev(it, it.body[2], env)


def term(v):
    if isinstance(v, list):
        if len(v) == 1:
            return term(v[0])           # newtype wrapper
        return "(" + ", ".join(term(x) for x in v) + ")"
    return v


def space_self():
    return [[["x0", "x1", "nx"], ["y0", "y1", "ny"]]]


SPACE_ARGS = "(x0 x1 : T) (nx : nat) (y0 y1 : T) (ny : nat)"
SPACE_TY = "(T * T * nat) * (T * T * nat)"


def gen_gridres(repo, out):
    si_path, ut_path = os.path.join(repo, SI), os.path.join(repo, UT)
    si_items, ut_items = parse_file(si_path), parse_file(ut_path)
    body = [f"(* GENERATED by tools/gen/gridres.py from {SI}, {UT} — do not edit; regenerated on every check run.\n"
            "   A space / a Steps2D is ((x0, x1, nx), (y0, y1, ny)) as in Gen/Grid.v; these functions only move components. *)\n"
            "Section GridRes.\nVariable T : Type.\n"]
    for impl, pre in SPACES:
        g = G(si_path, si_items, impl)
        for nm in ("set_resolution", "with_resolution"):
            v = g.run(nm, space_self(), ["res"])
            out.span(f"gridres:{impl}::{nm}", g.find(nm))
            body.append(f"(* {impl}::{nm} *)\nDefinition {pre}_{nm} {SPACE_ARGS} (res : nat) : {SPACE_TY} :=\n  {term(v)}.\n")
        if impl == "SumDiffFrequencySpace":
            v = g.run("new", None, [["xa", "xb", "xn"], ["ya", "yb", "yn"]])
            out.span(f"gridres:{impl}::new", g.find("new"))
            body.append(f"(* {impl}::new(xsteps, ysteps) *)\nDefinition {pre}_new (xa xb : T) (xn : nat) (ya yb : T) (yn : nat) : {SPACE_TY} :=\n  {term(v)}.\n")
    g = G(ut_path, ut_items, "Steps2D")
    v = g.run("new", None, [["xa", "xb", "xn"], ["ya", "yb", "yn"]])
    out.span("gridres:Steps2D::new", g.find("new"))
    body.append(f"(* Steps2D::new(x, y) *)\nDefinition steps2d_new (xa xb : T) (xn : nat) (ya yb : T) (yn : nat) : {SPACE_TY} :=\n  {term(v)}.\n")
    v = g.run("ranges", [["x0", "x1", "nx"], ["y0", "y1", "ny"]], [])
    out.span("gridres:Steps2D::ranges", g.find("ranges"))
    body.append(f"(* Steps2D::ranges *)\nDefinition steps2d_ranges {SPACE_ARGS} : (T * T) * (T * T) :=\n  {term(v)}.\n")
    body.append("End GridRes.\n")
    names = [f"{pre}_{nm}" for _, pre in SPACES for nm in ("set_resolution", "with_resolution")] + ["sd_new", "steps2d_new", "steps2d_ranges"]
    body.append("\n".join(f"Arguments {n} {{T}}." for n in names) + "\n")
    out.write("GridRes.v", "\n".join(body))


GENS = {"gridres": gen_gridres}
