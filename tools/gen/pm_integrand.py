"""Generator `pm_integrand` (C05, C06): symbolic execution of

    src/phasematch/coincidences.rs   get_pm_integrand, phasematch_fiber_coupling
    src/phasematch/normalization.rs  common_norm, jsi_normalization
    src/phasematch/mod.rs            fwhm_to_spectral_width, pump_spectral_amplitude
    src/jsa/joint_spectrum.rs        invalid_frequencies, jsa_raw, JointSpectrum::jsa, JointSpectrum::jsi
    src/spdc/spdc_obj.rs             SPDC::with_swapped_signal_idler (field permutation)  + pm_type.rs PMType::inverse

into coq/Gen/PMIntegrand.v.  Unlike the base Evaluator (which inlines everything into one term) every `let` of the translated
bodies becomes its own Coq `Definition pm_<name> (p : pm_params) [(z : R)]`, so proofs can name the coefficients
(GAM1s, DEL3i, A1 ... A10, numerator, denominator) exactly as the source does.  Complex values (`Complex::new`, `.exp()`,
`.sqrt()`, `.inv()`, mixed real/complex arithmetic) are translated to Coquelicot `C` terms with explicit Cplus/Cmult/…/RtoC.
Every access to the `spdc` object must be one of the accessors listed in SPDC_ACCESS (they are the fields of
Model/PMParams.v: pm_params, dumped by the harness through the same public accessors); anything else is UNTRANSLATABLE.
"""
import os
import re
import sys

sys.path.insert(0, os.path.dirname(os.path.dirname(os.path.abspath(__file__))))
from rustparse import parse_file, Untranslatable  # noqa: E402
import rs2coq  # noqa: E402
from rs2coq import Evaluator, R, load_all  # noqa: E402


class CX(str):
    """a Coq term of type C"""


def P(name):
    return R(f"({name} p)")


# constants the parser cannot reach (re-exports, lazy_static); FWHM_OVER_WAIST's source text is pinned in gen_pm_integrand
CONSTS = {"TWO_PI": R("(2 * PI)"), "PI": R("PI"), "FWHM_OVER_WAIST": R("(sqrt (2 * ln 2))"), "EPS_0": R("ucum_EPS_0")}

SPDC = ("SPDCOBJ",)
CSETUP = ("CSETUP",)
PP = ("PPOBJ",)
QUAD = ("QUADRATURE",)
PMFN = ("PMFN",)


def beam(tag):
    return ("BEAMOBJ", tag)


class PMEval(Evaluator):
    """Evaluator + complex numbers + the spdc accessor table"""

    def __init__(self, fname, items, all_items):
        super().__init__(fname, items, all_items, dict(CONSTS))
        self.used_params = set()
        self.alias = {}     # reference to a generated definition -> its defining term
        self.apod_fmt = "(p_apod p {z})"

    def sub(self, fname):
        s = PMEval(fname, self.all_items.get(("__file__", fname), []), self.all_items)
        s.used_params, s.alias = self.used_params, self.alias
        s.depth = self.depth
        return s

    # ---------------------------------------------------------------- arithmetic
    def tocx(self, v, e=None):
        if isinstance(v, CX):
            return v
        if self.is_r(v):
            return CX(f"(RtoC {v})")
        self.fail(f"complex operand expected, got {str(v)[:60]}", e)

    def arith(self, op, a, b, e=None):
        if isinstance(a, CX) or isinstance(b, CX):
            fn = {"+": "Cplus", "-": "Cminus", "*": "Cmult", "/": "Cdiv"}[op]
            return CX(f"({fn} {self.tocx(a, e)} {self.tocx(b, e)})")
        return super().arith(op, a, b, e)

    def ite(self, c, a, b):
        if isinstance(a, CX) or isinstance(b, CX):
            return CX(f"(if {self.cond_coq(c)} then {self.tocx(a)} else {self.tocx(b)})")
        return super().ite(c, a, b)

    def cond_coq(self, c):
        if c[0] == "bvar":
            return f"(bool_dec {c[1]} true)"
        if c[0] == "cmp" and c[1] == "==" and isinstance(c[2], CX) and isinstance(c[3], CX):
            return f"Ceq_dec {c[2]} {c[3]}"
        return super().cond_coq(c)

    def cond(self, e, env):
        # `spdc.pp == PeriodicPoling::Off`
        if e[0] == "bin" and e[1] in ("==", "!=") and e[3][0] == "path" and e[3][1][-2:] == ["PeriodicPoling", "Off"]:
            if self.ev(e[2], env) == PP:
                self.used_params.add("p_pp_on")
                on = ("bvar", "(p_pp_on p)")
                return ("not", on) if e[1] == "==" else on
        return super().cond(e, env)

    # ---------------------------------------------------------------- spdc accessors
    def ev(self, e, env):
        k = e[0]
        if k == "unary" and e[1] == "-":
            v = self.ev(e[2], env)
            if isinstance(v, CX):
                return CX(f"(Copp {v})")
            if self.is_r(v):
                return self.paren(f"- {v}")
            self.fail("unary minus", e)
        if k == "field":
            v = self.ev(e[1], env)
            if v == SPDC:
                f = e[2]
                if f in ("signal", "idler", "pump"):
                    return beam(f)
                if f == "crystal_setup":
                    return CSETUP
                if f == "pp":
                    return PP
                simple = {"signal_waist_position": "p_z0s", "idler_waist_position": "p_z0i", "pump_bandwidth": "p_bw",
                          "pump_average_power": "p_power", "deff": "p_deff", "pump_spectrum_threshold": "p_thr"}
                if f in simple:
                    return self.param(simple[f])
                self.fail(f"spdc.{f} is not a modelled accessor", e)
            if v == CSETUP:
                if e[2] == "length":
                    return self.param("p_L")
                self.fail(f"crystal_setup.{e[2]} is not a modelled accessor", e)
            if isinstance(v, tuple) and v and v[0] == "SELFSPEC" and e[2] in ("spdc", "integrator"):
                return SPDC if e[2] == "spdc" else QUAD
        return super().ev(e, env)

    def param(self, name):
        self.used_params.add(name)
        return P(name)

    def call(self, e, env):
        f = e[1]
        if f[0] == "path":
            segs = f[1]
            full2 = "::".join(segs[-2:])
            if full2 == "Complex::new":
                a, b = [self.ev(x, env) for x in e[2]]
                if not (self.is_r(a) and self.is_r(b)):
                    self.fail("Complex::new on non-reals", e)
                return CX(f"({a}, {b})")
            if full2 == "Complex::zero":
                return CX("(RtoC 0)")
            if full2 == "Complex::i" and not e[2]:
                return CX("(0, 1)")
            if full2 in ("PerMeter4::new", "JsiNorm::new", "JSIUnits::new", "PerMeter3::new", "JsiSinglesNorm::new", "Wavenumber::new"):
                return self.ev(e[2][0], env)
            if segs[-1] == "get_pm_integrand" and len(segs) == 1:
                args = [self.ev(x, env) for x in e[2]]
                if args != [P("p_omega_s"), P("p_omega_i"), SPDC]:
                    self.fail("get_pm_integrand called with unexpected arguments", e)
                return PMFN
            if segs[-1] in GENERATED_FNS and len(segs) == 1:
                args = [self.ev(x, env) for x in e[2]]
                spec = GENERATED_FNS[segs[-1]]
                want = [{"ws": P("p_omega_s"), "wi": P("p_omega_i"), "spdc": SPDC, "Q": QUAD}[a] for a in spec["args"]]
                if args != want:
                    self.fail(f"{segs[-1]} called with unexpected arguments {args!r}", e)
                t = f"({spec['coq']}{' Q' if 'Q' in spec['args'] else ''} p)"
                return CX(t) if spec["ty"] == "C" else R(t)
            # helper of another file applied to complex values (e.g. math::sq): evaluate it with a complex-aware evaluator
            if len(segs) == 1 and segs[0] not in env:
                it = self.lookup_fn(segs[0])
                if it is not None and it.file != self.fname:
                    args = [self.ev(a, env) for a in e[2]]
                    if any(isinstance(a, CX) for a in args):
                        return self.sub(it.file).call_fn(it, args)
        return super().call(e, env)

    def mcall(self, e, env):
        recv, name, argexprs = e[1], e[2], e[3]
        rv = self.ev(recv, env)
        if isinstance(rv, CX):
            if argexprs:
                self.fail(f"complex method {name} with arguments", e)
            if name == "conj":
                return CX(f"(Cconj {rv})")
            if name == "inv":
                return CX(f"(Cinv {rv})")
            if name == "exp":
                return CX(f"(Cexp {rv})")
            if name == "sqrt":
                return CX(f"(Csqrt {rv})")
            if name == "norm_sqr":
                return R(f"(Cmod {rv} ^ 2)")
            if name == "norm":
                return R(f"(Cmod {rv})")
            if name in ("clone", "into"):
                return rv
            self.fail(f"complex method {name}", e)
        if isinstance(rv, tuple) and rv and rv[0] == "BEAMOBJ":
            tag = rv[1]
            sfx = {"signal": "s", "idler": "i", "pump": "p"}[tag]
            args = [self.ev(a, env) for a in argexprs]
            if tag in ("signal", "idler"):
                if name == "phi" and not args:
                    return self.param(f"p_phi_{sfx}")
                if name == "theta_internal" and not args:
                    return self.param(f"p_theta_{sfx}")
                if name == "theta_external" and args == [CSETUP]:
                    return self.param(f"p_theta_{sfx}_e")
                if name == "direction" and not args:
                    return ("V3", [None, None, self.param(f"p_dirz_{sfx}")])
            if name == "waist" and not args:
                return ("STRUCT", "BeamWaist", {"x": self.param(f"p_w{sfx}x"), "y": self.param(f"p_w{sfx}y")})
            if name == "refractive_index" and len(args) == 2 and args[1] == CSETUP:
                want = {"signal": P("p_omega_s"), "idler": P("p_omega_i"),
                        "pump": self.arith("+", P("p_omega_s"), P("p_omega_i"))}[tag]
                a0 = self.alias.get(args[0], args[0])
                if a0 == want:
                    return self.param(f"p_n_{sfx}")
                if a0 == P(f"p_omega_{sfx}0"):      # index at the beam's own centre frequency
                    return self.param(f"p_n_{sfx}0")
                self.fail(f"{tag}.refractive_index evaluated at {args[0]} (modelled accessors: at {want} and at the centre frequency)", e)
            if name == "group_index" and len(args) == 2 and args[0] == CSETUP and args[1] == ("ENUM", "PeriodicPoling", "Off"):
                return self.param(f"p_ng_{sfx}")
            if name == "vacuum_wavelength" and not args:
                return self.param(f"p_lambda_{sfx}")
            if name == "frequency" and not args:
                return self.param(f"p_omega_{sfx}0")
            if tag == "pump":
                if name == "walkoff_angle" and args == [CSETUP]:
                    return self.param("p_rho")
            self.fail(f"spdc.{tag}.{name}(…) is not a modelled accessor", e)
        if rv == PP:
            args = [self.ev(a, env) for a in argexprs]
            if name == "k_eff" and not args:
                return self.param("p_k_eff")
            if name == "integration_constant" and len(args) == 2 and args[1] in (P("p_L"), getattr(self, "length_alias", None)) and self.is_r(args[0]):
                self.used_params.add("p_apod")
                return R(self.apod_fmt.format(z=args[0]))
            self.fail(f"spdc.pp.{name}(…) is not a modelled accessor", e)
        if rv == QUAD:
            args = [self.ev(a, env) for a in argexprs]
            if name == "integrate" and len(args) == 3 and args[0] == PMFN and self.is_r(args[1]) and self.is_r(args[2]):
                return CX(f"(Q (pm_integrand p) {args[1]} {args[2]})")
            self.fail(f"integrator.{name}(…)", e)
        if self.is_r(rv) and name == "abs" and not argexprs:
            return self.paren(f"Rabs {rv}")
        if isinstance(rv, tuple) and rv and rv[0] == "STRUCT":
            it = self.lookup_fn(name, rv[1]) or self.all_items.get((rv[1], name))
            if it is not None and it.file != self.fname:
                return self.sub(it.file).call_fn(it, [self.ev(a, env) for a in argexprs], self_val=rv)
        return super().mcall(e, env)


# functions of this generator that other translated functions call: name -> how a call is rendered
GENERATED_FNS = {
    "phasematch_fiber_coupling": {"args": ["ws", "wi", "spdc", "Q"], "coq": "pm_fiber_coupling", "ty": "C"},
    "pump_spectral_amplitude": None,  # filled below (argument is omega_s + omega_i)
    "common_norm": {"args": ["ws", "wi", "spdc"], "coq": "pm_common_norm", "ty": "R"},
    "jsi_normalization": {"args": ["ws", "wi", "spdc"], "coq": "pm_jsi_normalization", "ty": "R"},
    "jsa_raw": {"args": ["ws", "wi", "spdc", "Q"], "coq": "pm_jsa_raw", "ty": "C"},
}
del GENERATED_FNS["pump_spectral_amplitude"]


class Emitter:
    """turns the `let`s of one function body into named Coq definitions"""

    def __init__(self, ev, prefix, binder):
        self.ev, self.prefix, self.binder = ev, prefix, binder
        self.defs = []       # (name, type, term)
        self.names = set()

    def ref(self, name, ty, extra=""):
        t = f"({self.prefix}{name}{' Q' if self.binder.startswith('(Q') else ''} p{extra})"
        return CX(t) if ty == "C" else R(t)

    def run(self, stmts, tail, env, extra_binder="", extra_arg=""):
        """process statements; returns the value of the tail expression"""
        ev = self.ev
        for s in stmts:
            k = s[0]
            if k == "use":
                continue
            if k == "expr" and s[1][0] == "macro" and s[1][1] in ("assert", "debug_assert", "dbg"):
                continue
            if k != "let" or s[3] is None:
                ev.fail(f"statement {k} in a translated body", s)
            pat = s[1]
            if pat[0] == "pbind":
                name = pat[1]
            elif pat[0] == "ppath" and len(pat[1]) == 1:
                name = pat[1][0]
            else:
                ev.fail("let pattern", s)
            v = ev.ev(s[3], env)
            if isinstance(v, tuple) or (isinstance(v, str) and re.fullmatch(r"\(p_\w+ p\)", v)):
                env[name] = v      # objects, closures, direct parameter aliases: no definition
                continue
            ty = "C" if isinstance(v, CX) else "R"
            if not isinstance(v, (CX, R)):
                ev.fail(f"value of let {name}", s)
            if name in self.names:
                ev.fail(f"let {name} bound twice (shadowing is outside the subset)", s)
            self.names.add(name)
            self.defs.append((name, ty, str(v), extra_binder))
            env[name] = self.ref(name, ty, extra_arg)
            ev.alias[env[name]] = v
        if tail is None:
            ev.fail("body without a value")
        return ev.ev(tail, env) if tail[0] != "closure" else tail

    def text(self):
        out = []
        for name, ty, term, xb in self.defs:
            out.append(f"Definition {self.prefix}{name} {self.binder}{xb} : {ty} :=\n  {term}.\n")
        return "\n".join(out)


def find_fn(items, name, container=None):
    its = [i for i in items if i.kind == "fn" and i.name == name and (container is None or container in i.container)]
    if len(its) != 1:
        raise Untranslatable(items[0].file if items else "?", 0, f"fn {name} not found (or ambiguous)")
    if its[0].error:
        raise its[0].error
    return its[0]


def gen_pm_integrand(repo, out):
    allidx = load_all(repo)
    for f in ["src/beam/beam_waist.rs", "src/phasematch/mod.rs"]:
        p = os.path.join(repo, f)
        items = parse_file(p)
        allidx[("__file__", p)] = items
        for it in items:
            for c in it.container:
                allidx.setdefault((c, it.name), it)
            allidx.setdefault(it.name, it)
    msrc = open(os.path.join(repo, "src/math/mod.rs")).read()
    if not re.search(r"static\s+ref\s+FWHM_OVER_WAIST\s*:\s*f64\s*=\s*f64::sqrt\(2\.\s*\*\s*f64::ln\(2\.\)\);", msrc):
        raise Untranslatable(os.path.join(repo, "src/math/mod.rs"), 0, "FWHM_OVER_WAIST is no longer sqrt(2 ln 2)")
    csrc = open(os.path.join(repo, "src/constants.rs")).read()
    if not re.search(r"pub const TWO_PI: f64 = std::f64::consts::TAU;", csrc):
        raise Untranslatable(os.path.join(repo, "src/constants.rs"), 0, "TWO_PI is no longer TAU")
    body = [rs2coq.HEADER.format(src="src/phasematch/{coincidences,normalization,mod}.rs, src/jsa/joint_spectrum.rs, src/spdc/{spdc_obj,pm_type}.rs"),
            "From Coq Require Import Bool.\nFrom Coquelicot Require Import Coquelicot.\nFrom SpdVerif Require Import Base.CxPM Model.PMParams.\n"]

    # ------------------------------------------------------------------ get_pm_integrand
    cpath = os.path.join(repo, "src/phasematch/coincidences.rs")
    citems = parse_file(cpath)
    allidx[("__file__", cpath)] = citems
    it = find_fn(citems, "get_pm_integrand")
    out.span("coincidences::get_pm_integrand", it)
    if [p[0] for p in it.params] != [("pbind", "omega_s", False), ("pbind", "omega_i", False), ("pbind", "spdc", False)]:
        raise Untranslatable(cpath, it.span[0], "get_pm_integrand: parameter list changed")
    ev = PMEval(cpath, citems, allidx)
    ev.used_params.update(["p_omega_s", "p_omega_i"])
    env = {"omega_s": P("p_omega_s"), "omega_i": P("p_omega_i"), "spdc": SPDC}
    em = Emitter(ev, "pm_", "(p : pm_params)")
    blk = it.body
    tail = em.run(blk[1], blk[2], env)
    if not (isinstance(tail, tuple) and tail[0] == "CLOSURE" and len(tail[1]) == 1 and tail[1][0][0] == "pbind"):
        raise Untranslatable(cpath, it.span[0], "get_pm_integrand does not return a one-argument closure")
    zname = tail[1][0][1]
    cbody = tail[2]
    if cbody[0] != "block":
        raise Untranslatable(cpath, it.span[0], "closure body is not a block")
    cenv = dict(tail[3])
    cenv[zname] = R("z")
    val = em.run(cbody[1], cbody[2], cenv, extra_binder=" (z : R)", extra_arg=" z")
    if not isinstance(val, CX):
        raise Untranslatable(cpath, it.span[0], "integrand value is not complex")
    body.append("(* ---- get_pm_integrand: one definition per `let`; p = scalar inputs, z = integration variable in [-1, 1] ---- *)\n")
    body.append(em.text())
    body.append(f"Definition pm_integrand (p : pm_params) (z : R) : C :=\n  {val}.\n")
    integrand_lets = [d[0] for d in em.defs]

    # ---- the closure once more, as a function of its captured coefficients (nested lets): pm_closure
    outer_ty = {d[0]: d[1] for d in em.defs if not d[3]}

    def paths(e, acc):
        if isinstance(e, tuple):
            if e and e[0] == "path" and len(e[1]) == 1:
                acc.add(e[1][0])
            for x in e:
                paths(x, acc)
        elif isinstance(e, list):
            for x in e:
                paths(x, acc)
        return acc
    used = paths(cbody, set())
    captured = [d[0] for d in em.defs if not d[3] and d[0] in used]
    cenv2 = dict(tail[3])
    for nme in captured:
        cenv2[nme] = CX(nme) if outer_ty[nme] == "C" else R(nme)
    cenv2[zname] = R("z")
    ev.apod_fmt = "(apod {z})"
    lets_txt = []
    seen = set()
    for st in cbody[1]:
        if st[0] == "use":
            continue
        if st[0] != "let" or st[3] is None:
            raise Untranslatable(cpath, it.span[0], "closure statement outside the subset")
        nme = st[1][1] if st[1][0] == "pbind" else st[1][1][0]
        v = ev.ev(st[3], cenv2)
        if not isinstance(v, (CX, R)) or nme in seen or nme in captured:
            raise Untranslatable(cpath, it.span[0], f"closure let {nme}")
        seen.add(nme)
        ty = "C" if isinstance(v, CX) else "R"
        lets_txt.append(f"  let {nme} : {ty} := {v} in")
        cenv2[nme] = CX(nme) if ty == "C" else R(nme)
    res = ev.ev(cbody[2], cenv2)
    ev.apod_fmt = "(p_apod p {z})"
    binders = " ".join(f"({n} : {outer_ty[n]})" for n in captured)
    body.append("(* ---- the same closure as a function of its captured coefficients (every `let` of the closure body as a Coq let) ---- *)\n"
                f"Definition pm_closure (apod : R -> R) {binders} (z : R) : C :=\n" + "\n".join(lets_txt) + f"\n  {res}.\n")
    body.append("Definition pm_closure_of (p : pm_params) (z : R) : C :=\n  pm_closure (p_apod p) "
                + " ".join(f"(pm_{n} p)" for n in captured) + " z.\n")

    # ------------------------------------------------------------------ phasematch_fiber_coupling
    it = find_fn(citems, "phasematch_fiber_coupling")
    out.span("coincidences::phasematch_fiber_coupling", it)
    env = {"omega_s": P("p_omega_s"), "omega_i": P("p_omega_i"), "spdc": SPDC, "integrator": QUAD}
    v = ev.block(it.body, env)
    if not isinstance(v, CX):
        raise Untranslatable(cpath, it.span[0], "phasematch_fiber_coupling value")
    body.append("(* ---- phasematch_fiber_coupling: Q is the quadrature `integrator.integrate` (an oracle: any functional) ---- *)\n"
                f"Definition pm_fiber_coupling (Q : (R -> C) -> R -> R -> C) (p : pm_params) : C :=\n  {v}.\n")

    # ------------------------------------------------------------------ pump envelope (phasematch/mod.rs)
    mpath = os.path.join(repo, "src/phasematch/mod.rs")
    mitems = allidx[("__file__", mpath)]
    mev = PMEval(mpath, mitems, allidx)
    it = find_fn(mitems, "pump_spectral_amplitude")
    out.span("phasematch::pump_spectral_amplitude", it)
    out.span("phasematch::fwhm_to_spectral_width", find_fn(mitems, "fwhm_to_spectral_width"))
    v = mev.call_fn(it, [R("omega"), SPDC])
    if not mev.is_r(v):
        raise Untranslatable(mpath, it.span[0], "pump_spectral_amplitude value")
    body.append("(* ---- pump_spectral_amplitude(omega, spdc) ---- *)\n"
                f"Definition pm_pump_spectral_amplitude (p : pm_params) (omega : R) : R :=\n  {v}.\n")

    # ------------------------------------------------------------------ joint_spectrum.rs
    jpath = os.path.join(repo, "src/jsa/joint_spectrum.rs")
    jitems = parse_file(jpath)
    allidx[("__file__", jpath)] = jitems

    class JEval(PMEval):
        def call(self, e, env):
            f = e[1]
            if f[0] == "path" and f[1] == ["pump_spectral_amplitude"]:
                args = [self.ev(x, env) for x in e[2]]
                if len(args) == 2 and args[1] == SPDC and self.is_r(args[0]):
                    return R(f"(pm_pump_spectral_amplitude p {args[0]})")
                self.fail("pump_spectral_amplitude arguments", e)
            if f[0] == "path" and f[1] == ["invalid_frequencies"]:
                args = [self.ev(x, env) for x in e[2]]
                if args == [P("p_omega_s"), P("p_omega_i"), SPDC]:
                    return ("bvar", "(pm_invalid_frequencies p)")
                self.fail("invalid_frequencies arguments", e)
            return super().call(e, env)

        def sub(self, fname):
            s = JEval(fname, self.all_items.get(("__file__", fname), []), self.all_items)
            s.used_params, s.depth, s.alias = self.used_params, self.depth, self.alias
            return s

    jev = JEval(jpath, jitems, allidx)
    jev.used_params = ev.used_params
    it = find_fn(jitems, "invalid_frequencies")
    out.span("joint_spectrum::invalid_frequencies", it)
    # the body is: let omega_p = …; use …; <boolean expression>
    envj = {"omega_s": P("p_omega_s"), "omega_i": P("p_omega_i"), "spdc": SPDC}
    for s in it.body[1]:
        if s[0] == "use":
            continue
        if s[0] == "let" and s[1][0] == "pbind":
            envj[s[1][1]] = jev.ev(s[3], envj)
        else:
            raise Untranslatable(jpath, it.span[0], "invalid_frequencies: statement outside the subset")
    c = jev.cond(it.body[2], envj)
    body.append("(* ---- invalid_frequencies ---- *)\n"
                f"Definition pm_invalid_frequencies (p : pm_params) : bool :=\n  if {jev.cond_coq(c)} then true else false.\n")

    it = find_fn(jitems, "jsa_raw")
    out.span("joint_spectrum::jsa_raw", it)
    v = jev.call_fn(it, [P("p_omega_s"), P("p_omega_i"), SPDC, QUAD])
    if not isinstance(v, CX):
        raise Untranslatable(jpath, it.span[0], "jsa_raw value")
    body.append("(* ---- jsa_raw ---- *)\n"
                f"Definition pm_jsa_raw (Q : (R -> C) -> R -> R -> C) (p : pm_params) : C :=\n  {v}.\n")

    # ------------------------------------------------------------------ normalization.rs
    npath = os.path.join(repo, "src/phasematch/normalization.rs")
    nitems = parse_file(npath)
    allidx[("__file__", npath)] = nitems
    nev = JEval(npath, nitems, allidx)
    nev.used_params = ev.used_params
    it = find_fn(nitems, "common_norm")
    out.span("normalization::common_norm", it)
    v = nev.call_fn(it, [P("p_omega_s"), P("p_omega_i"), SPDC])
    if not nev.is_r(v):
        raise Untranslatable(npath, it.span[0], "common_norm value")
    body.append("(* ---- normalization.rs; EPS_0 in the raw (gram-based) UCUM base units the `dimensioned` crate stores ---- *)\n"
                "Definition ucum_EPS_0 : R := 8.854187817e-12 * 1e-3.\n\n"
                f"Definition pm_common_norm (p : pm_params) : R :=\n  {v}.\n")
    it = find_fn(nitems, "jsi_normalization")
    out.span("normalization::jsi_normalization", it)
    v = nev.call_fn(it, [P("p_omega_s"), P("p_omega_i"), SPDC])
    if not nev.is_r(v):
        raise Untranslatable(npath, it.span[0], "jsi_normalization value")
    body.append(f"Definition pm_jsi_normalization (p : pm_params) : R :=\n  {v}.\n")

    # ------------------------------------------------------------------ JointSpectrum::jsa / jsi
    for meth in ("jsa", "jsi"):
        it = find_fn(jitems, meth, "JointSpectrum")
        out.span(f"joint_spectrum::JointSpectrum::{meth}", it)
        selfv = ("SELFSPEC",)
        v = jev.call_fn(it, [P("p_omega_s"), P("p_omega_i")], self_val=selfv)
        if meth == "jsa" and not isinstance(v, CX):
            raise Untranslatable(jpath, it.span[0], "JointSpectrum::jsa value")
        if meth == "jsi" and not jev.is_r(v):
            raise Untranslatable(jpath, it.span[0], "JointSpectrum::jsi value")
        ty = "C" if meth == "jsa" else "R"
        body.append(f"(* ---- JointSpectrum::{meth} ---- *)\n"
                    f"Definition pm_{meth} (Q : (R -> C) -> R -> R -> C) (p : pm_params) : {ty} :=\n  {v}.\n")

    # ------------------------------------------------------------------ spdc/counts.rs
    kpath = os.path.join(repo, "src/spdc/counts.rs")
    kitems = parse_file(kpath)
    allidx[("__file__", kpath)] = kitems
    kev = PMEval(kpath, kitems, allidx)
    kev.used_params = ev.used_params
    it = find_fn(kitems, "get_counts_correction")
    out.span("counts::get_counts_correction", it)
    v = kev.call_fn(it, [SPDC])
    if not kev.is_r(v):
        raise Untranslatable(kpath, it.span[0], "get_counts_correction value")
    body.append("(* ---- spdc/counts.rs ---- *)\n"
                f"Definition pm_counts_correction (p : pm_params) : R :=\n  {v}.\n")
    body.append(counts_shapes(kpath, kitems, jpath, jitems, out))

    # ------------------------------------------------------------------ with_swapped_signal_idler: the field permutation
    spath = os.path.join(repo, "src/spdc/spdc_obj.rs")
    sitems = parse_file(spath)
    it = find_fn(sitems, "with_swapped_signal_idler")
    out.span("spdc_obj::SPDC::with_swapped_signal_idler", it)
    perm = swap_permutation(spath, it)
    body.append("(* ---- SPDC::with_swapped_signal_idler: which old field each new field is built from (beam wrappers erased) ---- *)\n"
                "Definition swap_field_source : list (string * string) :=\n  [" +
                "; ".join(f'("{a}", "{b}")' for a, b in perm) + "].\n")
    ppath = os.path.join(repo, "src/spdc/pm_type.rs")
    pitems = parse_file(ppath)
    it = find_fn(pitems, "inverse", "PMType")
    out.span("pm_type::PMType::inverse", it)
    arms = pm_inverse(ppath, it)
    body.append("Definition pm_type_inverse_arms : list (string * string) :=\n  [" +
                "; ".join(f'("{a}", "{b}")' for a, b in arms) + "].\n")
    body.append("Definition pm_integrand_lets : list string :=\n  [" + "; ".join(f'"{n}"' for n in integrand_lets) + "].\n")
    missing = sorted(set(FIELDS) - ev.used_params)
    body.append("(* parameters of Model/PMParams.v not read by the translated code: " + (", ".join(missing) or "none") + " *)\n")
    unknown = sorted(ev.used_params - set(FIELDS))
    if unknown:
        raise Untranslatable(cpath, 0, f"accessor table refers to fields that Model/PMParams.v does not have: {unknown}")
    out.write("PMIntegrand.v", "\n".join(body))


FIELDS = ["p_L", "p_phi_s", "p_phi_i", "p_theta_s", "p_theta_i", "p_theta_s_e", "p_theta_i_e", "p_wsx", "p_wsy", "p_wix", "p_wiy",
          "p_wpx", "p_wpy", "p_z0s", "p_z0i", "p_dirz_s", "p_dirz_i", "p_omega_s", "p_omega_i", "p_n_p", "p_n_s", "p_n_i", "p_rho",
          "p_k_eff", "p_apod", "p_pp_on", "p_lambda_p", "p_omega_p0", "p_bw", "p_power", "p_deff", "p_thr",
          "p_lambda_s", "p_lambda_i", "p_omega_s0", "p_omega_i0", "p_n_s0", "p_n_i0", "p_n_p0", "p_ng_s", "p_ng_i", "p_ng_p"]


def counts_shapes(kpath, kitems, jpath, jitems, out):
    """counts_coincidences / counts_singles_signal / counts_singles_idler and JointSpectrum::jsi_singles_idler_range are iterator
    pipelines (outside the expression subset): their shape is pinned and the fixed Coq rendering below is emitted."""
    def P_(n):
        return ("path", [n])

    def pipeline(spec, method, a, b):
        clo = ("closure", [("ptuple", [("pbind", "ws", False), ("pbind", "wi", False)])],
               ("bin", "*", ("mcall", P_("s"), method, [P_(a), P_(b)]), P_("dw2")))
        return ("bin", "*", P_("correction_factor"),
                ("mcall", ("mcall", ("mcall", ("mcall", P_("ranges"), "as_steps", []), "into_par_iter", []), "map", [clo]), "sum", []))
    own = ("mcall", P_("spdc"), "joint_spectrum", [P_("integrator")])
    swp = ("call", ("path", ["JointSpectrum", "new"]),
           [("mcall", ("mcall", P_("spdc"), "clone", []), "with_swapped_signal_idler", []), P_("integrator")])
    common = [("let", ("ptuple", [("pbind", "dws", False), ("pbind", "dwi", False)]), None,
               ("mcall", ("mcall", P_("ranges"), "steps", []), "division_widths", [])),
              ("let", ("pbind", "dw2", False), None, ("bin", "*", P_("dws"), P_("dwi"))),
              ("let", ("pbind", "correction_factor", False), None, ("call", P_("get_counts_correction"), [P_("spdc")]))]
    want = {"counts_coincidences": (own, "jsi", "ws", "wi"), "counts_singles_signal": (own, "jsi_singles", "ws", "wi"),
            "counts_singles_idler": (swp, "jsi_singles", "wi", "ws")}
    for name, (spec, meth, a, b) in want.items():
        it = find_fn(kitems, name)
        out.span(f"counts::{name}", it)
        stm = [s for s in it.body[1] if s[0] != "use"]
        exp = [("let", ("pbind", "s", False), None, spec)] + common
        if stm != exp or it.body[2] != pipeline(spec, meth, a, b):
            raise Untranslatable(kpath, it.span[0], f"{name}: body no longer has the pinned shape "
                                 "(spectrum of the setup / of the exchanged setup; argument order; correction factor of the unexchanged setup)")
    # Steps2D::division_widths: (width of axis 0, width of axis 1) — the two factors of the cell area dw2 = dws * dwi
    upath = os.path.join(os.path.dirname(os.path.dirname(kpath)), "utils.rs")
    uitems = parse_file(upath)
    it = find_fn(uitems, "division_widths", "Steps2D")
    out.span("utils::Steps2D::division_widths", it)
    axis = lambda k: ("mcall", ("call", ("path", ["Steps", "from"]), [("field", P_("self"), k)]), "division_width", [])
    if it.body != ("block", [], ("tuple", [axis("0"), axis("1")])):
        raise Untranslatable(upath, it.span[0], "Steps2D::division_widths is no longer (Steps::from(self.0).division_width(), "
                             "Steps::from(self.1).division_width())")
    it = find_fn(jitems, "jsi_singles_idler_range", "JointSpectrum")
    out.span("joint_spectrum::JointSpectrum::jsi_singles_idler_range", it)
    exp = [("let", ("pbind", "swapped", False), None,
            ("mcall", ("mcall", ("field", P_("self"), "spdc"), "clone", []), "with_swapped_signal_idler", [])),
           ("let", ("pbind", "idler_spectrum", False), None,
            ("call", ("path", ["Self", "new"]), [P_("swapped"), ("field", P_("self"), "integrator")]))]
    tail = ("mcall", ("mcall", ("mcall", P_("range"), "into_signal_idler_par_iterator", []), "map",
                      [("closure", [("ptuple", [("pbind", "ws", False), ("pbind", "wi", False)])],
                        ("mcall", P_("idler_spectrum"), "jsi_singles", [P_("wi"), P_("ws")]))]), "collect", [])
    if [s for s in it.body[1] if s[0] != "use"] != exp or it.body[2] != tail:
        raise Untranslatable(jpath, it.span[0], "jsi_singles_idler_range: body no longer has the pinned shape")
    return """(* Rates.  S ws wi = scalars of the setup at the frequency pair (ws, wi); Ssw a b = scalars of
   spdc.clone().with_swapped_signal_idler() at (a, b); p0 = scalars of the setup itself (only frequency-independent fields are
   read by the correction); pts = the grid `ranges.as_steps()`; dw2 = dws * dwi; jsis = JointSpectrum::jsi_singles as a function of
   the scalars (src/phasematch/singles.rs is not modelled here).  The parallel `sum` is rendered as a left-to-right real sum. *)
(* `let (dws, dwi) = ranges.steps().division_widths(); let dw2 = dws * dwi`: Steps2D::division_widths is pinned to
   (division width of axis 0, division width of axis 1); wx, wy are those two widths (Gen/Grid.v: steps_division_width) *)
Definition pm_cell_area (wx wy : R) : R := wx * wy.

Definition pm_grid_sum (f : R -> R -> R) (pts : list (R * R)) : R :=
  fold_right Rplus 0 (map (fun x => f (fst x) (snd x)) pts).

Definition pm_counts_coincidences (Q : (R -> C) -> R -> R -> C) (S : R -> R -> pm_params) (p0 : pm_params)
    (pts : list (R * R)) (dw2 : R) : R :=
  pm_counts_correction p0 * pm_grid_sum (fun ws wi => pm_jsi Q (S ws wi) * dw2) pts.

Definition pm_counts_singles_signal (jsis : pm_params -> R) (S : R -> R -> pm_params) (p0 : pm_params)
    (pts : list (R * R)) (dw2 : R) : R :=
  pm_counts_correction p0 * pm_grid_sum (fun ws wi => jsis (S ws wi) * dw2) pts.

Definition pm_counts_singles_idler (jsis : pm_params -> R) (Ssw : R -> R -> pm_params) (p0 : pm_params)
    (pts : list (R * R)) (dw2 : R) : R :=
  pm_counts_correction p0 * pm_grid_sum (fun ws wi => jsis (Ssw wi ws) * dw2) pts.

Definition pm_jsi_singles_idler_range (jsis : pm_params -> R) (Ssw : R -> R -> pm_params) (pts : list (R * R)) : list R :=
  map (fun x => jsis (Ssw (snd x) (fst x))) pts.
"""


def swap_permutation(spath, it):
    """with_swapped_signal_idler must be: destructure self; crystal_setup.pm_type = crystal_setup.pm_type.inverse(); Self { … }"""
    blk = it.body
    tail = blk[2]
    if tail is None or tail[0] != "struct" or tail[1][-1] != "Self" or tail[3] is not None:
        raise Untranslatable(spath, it.span[0], "with_swapped_signal_idler: result is not a `Self { … }` literal")
    stm = [s for s in blk[1] if s[0] != "use"]
    ok = (len(stm) == 2 and stm[0][0] == "let" and stm[0][1][0] == "pstruct" and stm[1][0] == "assign" and stm[1][1] == "="
          and stm[1][2] == ("field", ("path", ["crystal_setup"]), "pm_type")
          and stm[1][3] == ("mcall", ("field", ("path", ["crystal_setup"]), "pm_type"), "inverse", []))
    if not ok:
        raise Untranslatable(spath, it.span[0], "with_swapped_signal_idler: statements changed")
    for f, pat in stm[0][1][2]:
        if not (pat[0] == "pbind" and pat[1] == f):
            raise Untranslatable(spath, it.span[0], "with_swapped_signal_idler: destructuring renames a field")
    perm = []
    for f, x in tail[2]:
        if x[0] == "path" and len(x[1]) == 1:
            perm.append((f, x[1][0]))
        elif (x[0] == "mcall" and x[2] == "into" and x[1][0] == "mcall" and x[1][2] == "as_beam" and x[1][1][0] == "path"
              and len(x[1][1][1]) == 1):
            perm.append((f, x[1][1][1][0]))
        else:
            raise Untranslatable(spath, it.span[0], f"with_swapped_signal_idler: field {f}")
    return sorted(perm)


def pm_inverse(ppath, it):
    tail = it.body[2]
    if tail is None or tail[0] != "match":
        raise Untranslatable(ppath, it.span[0], "PMType::inverse is not a match")
    arms = []
    for pat, guard, rhs in tail[2]:
        if guard is not None:
            raise Untranslatable(ppath, it.span[0], "PMType::inverse: guard")
        if pat[0] == "pwild":
            if not (rhs[0] == "unary" and rhs[1] == "*" and rhs[2] == ("path", ["self"])):
                raise Untranslatable(ppath, it.span[0], "PMType::inverse: default arm")
            arms.append(("_", "_"))
        elif pat[0] == "ppath" and rhs[0] == "path":
            arms.append((pat[1][-1], rhs[1][-1]))
        else:
            raise Untranslatable(ppath, it.span[0], "PMType::inverse: arm")
    return arms


GENS = {"pm_integrand": gen_pm_integrand}
