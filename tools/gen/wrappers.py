"""Generators `wrapbase` and `wrap_<name>` (one per forwarder): coq/Gen/WrapBase.v and coq/Gen/W_<name>.v from src/spdc/spdc_obj.rs
(thin wrappers of `impl SPDC`: delta_k, optimum_idler, with_/assign_optimum_idler, optimum_crystal_theta, with_/assign_optimum_crystal_theta,
with_optimum_periodic_poling, with_poling_period, joint_spectrum, counts_*, efficiencies, as_config) and src/spdc/efficiencies.rs
(`efficiencies`).

Each body is interpreted on a symbolic SPDC record (Gen/WrapBase.v) whose fields are values of one opaque type `obj`.  Every function
or method the body calls is a FIELD, named after the callee, of the wrapper's callee record `<W>_K`; the generated definition
`<W>_gen (K : <W>_K) self params` applies those fields to the forwarded arguments in the order of the source.  Besides the definition
each file carries, as Coq string lists, the callee names in order of first use (`<W>_callees`) and every call / assignment of the body
with its argument expressions in source order (`<W>_calls`: (target, callee, arguments)).  The lemma files pin the string lists by
reflexivity and instantiate the callee records BY FIELD NAME, so a different callee, exchanged callees, exchanged arguments, a dropped or
reordered assignment all break S3.

One generator per wrapper: a body that is not a thin forwarder (see the accepted forms below) is refused (Untranslatable) and only
Gen/W_<that wrapper>.v disappears; lemma files import only the wrappers they talk about.

Accepted statements:
    self.f = e;                         field update
    self.m(args);  self.m(args)?;       another SPDC method on the same value (callee `m : spdc -> … -> spdc` / `option spdc`)
    self.f.m(args);                     a mutating method on a field:  f := m (f self) args
    let [mut] x = e;  let x = e?;       local binding
    x.m(args);                          a mutating method on a local:  x := m x args
    tail:  self | Ok(self) | e          (e: a call / method call whose arguments are parameters, self, self.clone(), fields of self,
                                         each possibly under & * .clone() .to_owned() .into(), or unit-like constants such as
                                         PeriodicPoling::Off)
"""
import os
import re
import sys

sys.path.insert(0, os.path.dirname(os.path.dirname(os.path.abspath(__file__))))
from rustparse import parse_file, Untranslatable  # noqa: E402

SRC = "src/spdc/spdc_obj.rs"
FIELDS = ["signal", "idler", "pump", "crystal_setup", "pp", "signal_waist_position", "idler_waist_position"]
WRAPPERS = ["as_config", "with_optimum_idler", "assign_optimum_idler", "with_optimum_periodic_poling", "with_poling_period",
            "assign_optimum_crystal_theta", "with_optimum_crystal_theta", "optimum_crystal_theta", "optimum_idler", "delta_k",
            "joint_spectrum", "counts_coincidences", "counts_singles_signal", "counts_singles_idler", "efficiencies"]
# free functions that only chain such calls: (file, name); a parameter of type &SPDC is an SPDC record
FREE = [("src/spdc/efficiencies.rs", "efficiencies")]
ERASED = {"clone", "to_owned", "into", "as_ref"}
MAX_STMTS = 4



def show(e):
    """source-like text of an argument expression (what is pinned in <W>_calls)"""
    k = e[0]
    if k == "paren":
        return "(" + show(e[1]) + ")"
    if k == "unary":
        return e[1] + show(e[2])
    if k == "path":
        return "::".join(e[1])
    if k == "field":
        return show(e[1]) + "." + e[2]
    if k == "mcall":
        return show(e[1]) + "." + e[2] + "(" + ", ".join(show(a) for a in e[3]) + ")"
    if k == "call":
        return show(e[1]) + "(" + ", ".join(show(a) for a in e[2]) + ")"
    if k == "try":
        return show(e[1]) + "?"
    raise Untranslatable("<wrappers>", 0, "expression form " + k + " cannot be shown")


def callee_args(e):
    """(callee text, [argument texts]) of a call / method call; ("", [text]) of anything else"""
    if e[0] == "call":
        return (show(e[1]), [show(a) for a in e[2]])
    if e[0] == "mcall":
        return (show(e[1]) + "." + e[2], [show(a) for a in e[3]])
    return ("", [show(e)])


class W:
    def __init__(self, path, it, cname):
        self.path, self.it, self.cname = path, it, cname
        self.calls = []         # [(target, callee, [argument source text])] in source order
        self.oracles = []       # [(name, [kinds], result kind, fallible)]
        self.kinds = {}         # parameter -> spdc (a `&SPDC` parameter of a free function); default obj
        self.fallible = False

    def fail(self, what, e=None):
        raise Untranslatable(self.path, self.it.span[0], f"{'::'.join(self.it.container + [self.it.name])} is not a thin forwarder: {what}" + (f" in {str(e)[:140]}" if e is not None else ""))

    def oracle(self, name, kinds, res, fallible=False):
        for o in self.oracles:
            if o[0] == name:
                if o[1:] != (kinds, res, fallible):
                    self.fail(f"callee {name} used with two different shapes")
                return self.proj(name)
        self.oracles.append((name, kinds, res, fallible))
        return self.proj(name)

    def proj(self, name):
        return f"({self.cname}_K_{name} K)"

    # ---- expressions: returns (coq term, kind) with kind in obj | spdc
    def ev(self, e, cur, env, allow_try=False):
        k = e[0]
        if k == "paren":
            return self.ev(e[1], cur, env)
        if k == "unary" and e[1] in ("&", "*"):
            return self.ev(e[2], cur, env)
        if k == "path":
            segs = e[1]
            if segs == ["self"]:
                return cur, "spdc"
            if len(segs) == 1 and segs[0] in env:
                return env[segs[0]], self.kinds.get(segs[0], "obj")
            if len(segs) == 2 and segs[0][0].isupper() and segs[1][0].isupper():
                return self.oracle("_".join(segs), [], "obj"), "obj"       # a unit-like constant, e.g. PeriodicPoling::Off
            self.fail("unknown name " + "::".join(segs), e)
        if k == "field":
            v, kind = self.ev(e[1], cur, env)
            if kind == "spdc" and e[2] in FIELDS:
                return f"({e[2]} {v})", "obj"
            self.fail("field ." + e[2], e)
        if k == "mcall":
            recv, name, args = e[1], e[2], e[3]
            if name in ERASED and not args:
                return self.ev(recv, cur, env)
            rv, rk = self.ev(recv, cur, env)
            if rk == "spdc" and recv == ("path", ["self"]):
                self.fail(f"method {name} on self in value position", e)     # it could mutate self
            avs = [self.ev(a, cur, env) for a in args]
            o = self.oracle(name, [rk] + [ak for _, ak in avs], "obj")
            return "(" + " ".join([o, rv] + [a for a, _ in avs]) + ")", "obj"
        if k == "call" and e[1][0] == "path":
            segs = [s for s in e[1][1] if s not in ("crate", "super")]
            if segs == ["Ok"] and len(e[2]) == 1:
                return self.ev(e[2][0], cur, env)
            avs = [self.ev(a, cur, env) for a in e[2]]
            name = "_".join(segs[-2:]) if len(segs) >= 2 and segs[-2][0].isupper() else segs[-1]
            o = self.oracle(name, [ak for _, ak in avs], "obj")
            return "(" + " ".join([o] + [a for a, _ in avs]) + ")", "obj"
        self.fail("expression form " + k, e)

    def is_try(self, e):
        return e[0] == "try"

    # ---- statements
    def run(self, stmts, tail, cur, env, depth=0):
        if not stmts:
            return self.tail(tail, cur, env)
        st, rest = stmts[0], stmts[1:]
        if st[0] == "use":
            return self.run(rest, tail, cur, env, depth)
        if st[0] == "assign" and st[1] == "=":
            lhs = st[2]
            if not (lhs[0] == "field" and lhs[1] == ("path", ["self"]) and lhs[2] in FIELDS):
                self.fail("assignment target", st)
            v, kind = self.ev(st[3], cur, env)
            if kind != "obj":
                self.fail("assigned value", st)
            self.calls.append(("self." + lhs[2], "=", [show(st[3])]))
            return self.run(rest, tail, f"(set_{lhs[2]} {cur} {v})", env, depth)
        if st[0] == "let":
            pat, val = st[1], st[3]
            if pat[0] != "pbind" or val is None:
                self.fail("let pattern", st)
            self.calls.append((pat[1],) + callee_args(val[1] if self.is_try(val) else val))
            if self.is_try(val):
                self.fallible = True
                v, kind = self.ev(val[1], cur, env)
                self.mark_fallible(v)
                nm = "l_" + pat[1]
                env2 = dict(env)
                env2[pat[1]] = nm
                body = self.run(rest, tail, cur, env2, depth + 1)
                return f"(match {v} with\n   | Some {nm} => {body}\n   | None => None end)"
            v, kind = self.ev(val, cur, env)
            env2 = dict(env)
            env2[pat[1]] = "l_" + pat[1]
            return f"(let l_{pat[1]} := {v} in\n   {self.run(rest, tail, cur, env2, depth)})"
        if st[0] == "expr":
            e = st[1]
            tr = self.is_try(e)
            if tr:
                e = e[1]
            if e[0] == "mcall":
                recv, name, args = e[1], e[2], e[3]
                avs = [self.ev(a, cur, env) for a in args]
                if any(ak != "obj" for _, ak in avs):
                    self.fail("argument kinds", e)
                astr = " ".join(a for a, _ in avs)
                self.calls.append((show(recv), name + ("?" if tr else ""), [show(a) for a in args]))
                if recv == ("path", ["self"]):
                    o = self.oracle(name, ["spdc"] + ["obj"] * len(avs), "spdc", tr)
                    call = f"({o} {cur}{(' ' + astr) if astr else ''})"
                    if tr:
                        self.fallible = True
                        body = self.run(rest, tail, "self'", env, depth + 1)
                        return f"(match {call} with\n   | Some self' => {body}\n   | None => None end)"
                    return self.run(rest, tail, call, env, depth)
                if tr:
                    self.fail("`?` on a method of a field or local", e)
                if recv[0] == "field" and recv[1] == ("path", ["self"]) and recv[2] in FIELDS:
                    o = self.oracle(name, ["obj"] + ["obj"] * len(avs), "obj")
                    newf = f"({o} ({recv[2]} {cur}){(' ' + astr) if astr else ''})"
                    return self.run(rest, tail, f"(set_{recv[2]} {cur} {newf})", env, depth)
                if recv[0] == "path" and len(recv[1]) == 1 and recv[1][0] in env:
                    x = recv[1][0]
                    o = self.oracle(name, ["obj"] + ["obj"] * len(avs), "obj")
                    env2 = dict(env)
                    env2[x] = env[x] + "'"
                    return f"(let {env2[x]} := ({o} {env[x]}{(' ' + astr) if astr else ''}) in\n   {self.run(rest, tail, cur, env2, depth)})"
            self.fail("statement", st)
        self.fail("statement form " + st[0], st)

    def mark_fallible(self, term):
        # the callee at the head of `term` returns a Result
        for i, o in enumerate(self.oracles):
            if term.lstrip("(").startswith(self.proj(o[0]).lstrip("(")):
                self.oracles[i] = (o[0], o[1], o[2], True)

    def tail(self, tail, cur, env):
        if tail is None:
            self.fail("no tail expression")
        self.calls.append(("return",) + callee_args(tail))
        if tail == ("path", ["self"]):
            self.kind = "spdc"
            return f"(Some {cur})" if self.fallible else cur
        if tail[0] == "call" and tail[1] == ("path", ["Ok"]) and len(tail[2]) == 1:
            self.fallible = True
            v, kind = self.ev(tail[2][0], cur, env)
            self.kind = kind
            return f"(Some {v})"
        v, kind = self.ev(tail, cur, env)
        self.kind = kind
        if self.result_is_result():
            # the callee's Result is returned as it is
            self.mark_fallible(v)
            self.passthrough = True
        return v

    def result_is_result(self):
        return (self.it.ret or "").replace(" ", "").startswith("Result<")


def coq_kind(k):
    return "(spdc obj)" if k == "spdc" else "obj"


def coq_str(s):
    return '"' + s.replace('"', '""') + '"'


def gen_wrapbase(repo, out):
    """the SPDC record: the fields named in FIELDS must be public fields of `pub struct SPDC`"""
    path = os.path.join(repo, SRC)
    src = open(path).read()
    m = re.search(r"pub struct SPDC\s*\{(.*?)\n\}", src, re.S)
    if not m:
        raise Untranslatable(path, 0, "pub struct SPDC not found")
    for f in FIELDS:
        if not re.search(r"\bpub\s+" + f + r"\s*:", m.group(1)):
            raise Untranslatable(path, 0, f"SPDC has no public field {f}")
    lines = [f"(* GENERATED by tools/gen/wrappers.py from {SRC} — do not edit; regenerated on every check run.\n"
             "   The SPDC object as the forwarders of Gen/W_*.v see it: `obj` is one opaque type for every component value (beams, crystal\n"
             "   setup, poling, waist positions; also frequencies, ranges, integrators, results). *)\n"
             "Record spdc (obj : Type) := mk_spdc { " + "; ".join(f"{f} : obj" for f in FIELDS) + " }.\n"
             + "\n".join(f"Arguments {n} {{obj}}." for n in ["mk_spdc"] + FIELDS) + "\n"]
    for f in FIELDS:
        lines.append(f"Definition set_{f} {{obj : Type}} (s : spdc obj) (v : obj) : spdc obj :=\n  mk_spdc " +
                     " ".join("v" if g == f else f"({g} s)" for g in FIELDS) + ".")
    out.write("WrapBase.v", "\n".join(lines) + "\n")


def targets(repo):
    """(generator name, file, item finder)"""
    t = []
    for nm in WRAPPERS:
        t.append((f"wrap_SPDC_{nm}", SRC, nm, True))
    for rel, nm in FREE:
        t.append((f"wrap_{nm}", rel, nm, False))
    return t


def make_gen(gname, rel, nm, method):
    cname = f"SPDC_{nm}" if method else nm

    def g(repo, out):
        fpath = os.path.join(repo, rel)
        its = [i for i in parse_file(fpath) if i.kind == "fn" and i.name == nm and (("SPDC" in i.container) if method else not i.container)]
        title = f"SPDC::{nm}" if method else f"{nm} ({rel})"
        if len(its) != 1:
            raise Untranslatable(fpath, 0, f"{title} not found exactly once")
        it = its[0]
        if it.error or it.body is None:
            raise Untranslatable(fpath, it.span[0], f"{title}: body does not parse")
        out.span(("wrappers:SPDC::" if method else "wrappers:") + nm, it)
        w = W(fpath, it, cname)
        w.kind, w.passthrough = "obj", False
        params = list(it.params)
        if method:
            if not params or params[0][0] != ("pbind", "self", False):
                w.fail("first parameter is not self")
            params = params[1:]
        env = {}
        pnames = []
        for pat, ty in params:
            if pat[0] != "pbind":
                w.fail("parameter pattern")
            if pat[1] in FIELDS or pat[1].startswith("set_") or pat[1] in ("self", "obj", "K"):
                w.fail("parameter name clashes with the record model: " + pat[1])
            env[pat[1]] = pat[1]
            tyc = (ty or "").replace(" ", "")
            if not method and tyc == "&SPDC":
                w.kinds[pat[1]] = "spdc"
            elif "SPDC" in tyc.replace("SPDCError", ""):
                w.fail("parameter of an SPDC type other than &SPDC: " + tyc)
            pnames.append((pat[1], w.kinds.get(pat[1], "obj")))
        stmts = [s for s in it.body[1]]
        if len([s for s in stmts if s[0] != "use"]) > MAX_STMTS:
            w.fail(f"more than {MAX_STMTS} statements")
        w.fallible = w.result_is_result()
        term = w.run(stmts, it.body[2], "self", env)
        fields = []
        for (on, kinds, res, fal) in w.oracles:
            ty = " -> ".join([coq_kind(k) for k in kinds] + [(f"option {coq_kind(res)}" if fal else coq_kind(res))])
            fields.append(f"{cname}_K_{on} : {ty}")
        rty = coq_kind(w.kind)
        if w.fallible:
            rty = f"option {rty}"
        selfb = " (self : spdc obj)" if method else ""
        calls = "[" + ";\n   ".join("(" + coq_str(t) + ", " + coq_str(c) + ", [" + "; ".join(coq_str(a) for a in args) + "])" for t, c, args in w.calls) + "]"
        text = (f"(* GENERATED by tools/gen/wrappers.py from {rel} — do not edit; regenerated on every check run.  {title} *)\n"
                "From Coq Require Import String List.\nFrom SpdVerif Require Import Gen.WrapBase.\nImport ListNotations.\nLocal Open Scope string_scope.\n\n"
                f"(* the callees in order of first use; every call / assignment of the body as (target, callee, argument expressions) in source order *)\n"
                f"Definition {cname}_callees : list string := [" + "; ".join(coq_str(o[0]) for o in w.oracles) + "].\n"
                f"Definition {cname}_calls : list (string * string * list string) :=\n  {calls}.\n\n"
                f"Section W.\nVariable obj : Type.\n"
                f"(* one field per callee, named after it *)\n"
                f"Record {cname}_K := mk_{cname}_K {{ " + "; ".join(fields) + " }.\n"
                f"Definition {cname}_gen (K : {cname}_K){selfb}{''.join(f' ({p} : {coq_kind(k)})' for p, k in pnames)} : {rty} :=\n  {term}.\n"
                "End W.\n"
                + "\n".join(f"Arguments {n} {{obj}}." for n in [f"mk_{cname}_K", f"{cname}_gen"] + [f"{cname}_K_{o[0]}" for o in w.oracles]) + "\n")
        out.write(f"W_{cname}.v", text)
    return g


GENS = {"wrapbase": gen_wrapbase}
for _g, _rel, _nm, _m in targets(None):
    GENS[_g] = make_gen(_g, _rel, _nm, _m)
