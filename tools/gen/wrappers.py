"""Generator `wrappers`: coq/Gen/Wrappers.v from src/spdc/spdc_obj.rs — the thin wrappers of `impl SPDC`
(delta_k, optimum_idler, with_/assign_optimum_idler, optimum_crystal_theta, with_/assign_optimum_crystal_theta,
with_optimum_periodic_poling, with_poling_period, joint_spectrum, counts_*, efficiencies, as_config).

Each body is interpreted on a symbolic SPDC record whose fields are values of one opaque type `obj`; every function or method
it calls becomes a parameter (an oracle) of the generated definition, applied to the forwarded arguments IN THE ORDER OF THE
SOURCE.  What is generated is therefore exactly: which callee, which arguments, in which order, which fields are overwritten
and in which sequence, and how errors (`?`) propagate.  coq/Proofs/Compose_wrappers.v pins each wrapper to its expected callee and
argument order by reflexivity, so a swapped argument, a different callee or a dropped assignment breaks S3.

Accepted statements (anything else raises Untranslatable — the body is then not a thin forwarder):
    self.f = e;                         field update
    self.m(args);  self.m(args)?;       another SPDC method on the same value (oracle `m : spdc -> … -> spdc` / `option spdc`)
    self.f.m(args);                     a mutating method on a field:  f := m (f self) args
    let [mut] x = e;  let x = e?;       local binding
    x.m(args);                          a mutating method on a local:  x := m x args
    tail:  self | Ok(self) | e          (e: a call / method call whose arguments are parameters, self, self.clone(), fields of self,
                                         each possibly under & * .clone() .to_owned() .into(), or unit-like constants such as
                                         PeriodicPoling::Off)
"""
import os
import sys

sys.path.insert(0, os.path.dirname(os.path.dirname(os.path.abspath(__file__))))
from rustparse import parse_file, Untranslatable  # noqa: E402

SRC = "src/spdc/spdc_obj.rs"
FIELDS = ["signal", "idler", "pump", "crystal_setup", "pp", "signal_waist_position", "idler_waist_position"]
WRAPPERS = ["as_config", "with_optimum_idler", "assign_optimum_idler", "with_optimum_periodic_poling", "with_poling_period",
            "assign_optimum_crystal_theta", "with_optimum_crystal_theta", "optimum_crystal_theta", "optimum_idler", "delta_k",
            "joint_spectrum", "counts_coincidences", "counts_singles_signal", "counts_singles_idler", "efficiencies"]
# free functions that only chain such calls: (file, name); a parameter of type &SPDC is an SPDC record
FREE = [("src/spdc/efficiencies.rs", "efficiencies")]
ERASED = {"clone", "to_owned", "into", "as_ref"}
MAX_STMTS = 4


class W:
    def __init__(self, path, it):
        self.path, self.it = path, it
        self.oracles = []       # [(name, [kinds], result kind, fallible)]
        self.kinds = {}         # parameter -> spdc (a `&SPDC` parameter of a free function); default obj
        self.fallible = False

    def fail(self, what, e=None):
        raise Untranslatable(self.path, self.it.span[0], f"{'::'.join(self.it.container + [self.it.name])} is not a thin forwarder: {what}" + (f" in {str(e)[:140]}" if e is not None else ""))

    def oracle(self, name, kinds, res, fallible=False):
        for o in self.oracles:
            if o[0] == name:
                if o[1:] != (kinds, res, fallible):
                    self.fail(f"callee {name} used with two different shapes")
                return name
        self.oracles.append((name, kinds, res, fallible))
        return name

    # ---- expressions: returns (coq term, kind) with kind in obj | spdc
    def ev(self, e, cur, env, allow_try=False):
        k = e[0]
        if k == "paren":
            return self.ev(e[1], cur, env)
        if k == "unary" and e[1] in ("&", "*"):
            return self.ev(e[2], cur, env)
        if k == "path":
            segs = e[1]
            if segs == ["self"]:
                return cur, "spdc"
            if len(segs) == 1 and segs[0] in env:
                return env[segs[0]], self.kinds.get(segs[0], "obj")
            if len(segs) == 2 and segs[0][0].isupper() and segs[1][0].isupper():
                return self.oracle("_".join(segs), [], "obj"), "obj"       # a unit-like constant, e.g. PeriodicPoling::Off
            self.fail("unknown name " + "::".join(segs), e)
        if k == "field":
            v, kind = self.ev(e[1], cur, env)
            if kind == "spdc" and e[2] in FIELDS:
                return f"({e[2]} {v})", "obj"
            self.fail("field ." + e[2], e)
        if k == "mcall":
            recv, name, args = e[1], e[2], e[3]
            if name in ERASED and not args:
                return self.ev(recv, cur, env)
            rv, rk = self.ev(recv, cur, env)
            if rk == "spdc" and recv == ("path", ["self"]):
                self.fail(f"method {name} on self in value position", e)     # it could mutate self
            avs = [self.ev(a, cur, env) for a in args]
            o = self.oracle(name, [rk] + [ak for _, ak in avs], "obj")
            return "(" + " ".join([o, rv] + [a for a, _ in avs]) + ")", "obj"
        if k == "call" and e[1][0] == "path":
            segs = [s for s in e[1][1] if s not in ("crate", "super")]
            if segs == ["Ok"] and len(e[2]) == 1:
                return self.ev(e[2][0], cur, env)
            avs = [self.ev(a, cur, env) for a in e[2]]
            name = "_".join(segs[-2:]) if len(segs) >= 2 and segs[-2][0].isupper() else segs[-1]
            o = self.oracle(name, [ak for _, ak in avs], "obj")
            return "(" + " ".join([o] + [a for a, _ in avs]) + ")", "obj"
        self.fail("expression form " + k, e)

    def is_try(self, e):
        return e[0] == "try"

    # ---- statements
    def run(self, stmts, tail, cur, env, depth=0):
        if not stmts:
            return self.tail(tail, cur, env)
        st, rest = stmts[0], stmts[1:]
        if st[0] == "use":
            return self.run(rest, tail, cur, env, depth)
        if st[0] == "assign" and st[1] == "=":
            lhs = st[2]
            if not (lhs[0] == "field" and lhs[1] == ("path", ["self"]) and lhs[2] in FIELDS):
                self.fail("assignment target", st)
            v, kind = self.ev(st[3], cur, env)
            if kind != "obj":
                self.fail("assigned value", st)
            return self.run(rest, tail, f"(set_{lhs[2]} {cur} {v})", env, depth)
        if st[0] == "let":
            pat, val = st[1], st[3]
            if pat[0] != "pbind" or val is None:
                self.fail("let pattern", st)
            if self.is_try(val):
                self.fallible = True
                v, kind = self.ev(val[1], cur, env)
                self.mark_fallible(v)
                nm = "l_" + pat[1]
                env2 = dict(env)
                env2[pat[1]] = nm
                body = self.run(rest, tail, cur, env2, depth + 1)
                return f"(match {v} with\n   | Some {nm} => {body}\n   | None => None end)"
            v, kind = self.ev(val, cur, env)
            env2 = dict(env)
            env2[pat[1]] = "l_" + pat[1]
            return f"(let l_{pat[1]} := {v} in\n   {self.run(rest, tail, cur, env2, depth)})"
        if st[0] == "expr":
            e = st[1]
            tr = self.is_try(e)
            if tr:
                e = e[1]
            if e[0] == "mcall":
                recv, name, args = e[1], e[2], e[3]
                avs = [self.ev(a, cur, env) for a in args]
                if any(ak != "obj" for _, ak in avs):
                    self.fail("argument kinds", e)
                astr = " ".join(a for a, _ in avs)
                if recv == ("path", ["self"]):
                    o = self.oracle(name, ["spdc"] + ["obj"] * len(avs), "spdc", tr)
                    call = f"({o} {cur}{(' ' + astr) if astr else ''})"
                    if tr:
                        self.fallible = True
                        body = self.run(rest, tail, "self'", env, depth + 1)
                        return f"(match {call} with\n   | Some self' => {body}\n   | None => None end)"
                    return self.run(rest, tail, call, env, depth)
                if tr:
                    self.fail("`?` on a method of a field or local", e)
                if recv[0] == "field" and recv[1] == ("path", ["self"]) and recv[2] in FIELDS:
                    o = self.oracle(name, ["obj"] + ["obj"] * len(avs), "obj")
                    newf = f"({o} ({recv[2]} {cur}){(' ' + astr) if astr else ''})"
                    return self.run(rest, tail, f"(set_{recv[2]} {cur} {newf})", env, depth)
                if recv[0] == "path" and len(recv[1]) == 1 and recv[1][0] in env:
                    x = recv[1][0]
                    o = self.oracle(name, ["obj"] + ["obj"] * len(avs), "obj")
                    env2 = dict(env)
                    env2[x] = env[x] + "'"
                    return f"(let {env2[x]} := ({o} {env[x]}{(' ' + astr) if astr else ''}) in\n   {self.run(rest, tail, cur, env2, depth)})"
            self.fail("statement", st)
        self.fail("statement form " + st[0], st)

    def mark_fallible(self, term):
        # the callee at the head of `term` returns a Result
        head = term.strip("(").split(" ")[0]
        for i, o in enumerate(self.oracles):
            if o[0] == head:
                self.oracles[i] = (o[0], o[1], o[2], True)

    def tail(self, tail, cur, env):
        if tail is None:
            self.fail("no tail expression")
        if tail == ("path", ["self"]):
            self.kind = "spdc"
            return f"(Some {cur})" if self.fallible else cur
        if tail[0] == "call" and tail[1] == ("path", ["Ok"]) and len(tail[2]) == 1:
            self.fallible = True
            v, kind = self.ev(tail[2][0], cur, env)
            self.kind = kind
            return f"(Some {v})"
        v, kind = self.ev(tail, cur, env)
        self.kind = kind
        if self.result_is_result():
            # the callee's Result is returned as it is
            self.mark_fallible(v)
            self.passthrough = True
        return v

    def result_is_result(self):
        return (self.it.ret or "").replace(" ", "").startswith("Result<")


def coq_kind(k):
    return "spdc" if k == "spdc" else "obj"


def gen_wrappers(repo, out):
    path = os.path.join(repo, SRC)
    items = parse_file(path)
    lines = [f"(* GENERATED by tools/gen/wrappers.py from {SRC} — do not edit; regenerated on every check run. *)\n"
             "(* Thin wrappers of `impl SPDC`.  `obj` is one opaque type for every component value (beams, crystal setup, poling,\n"
             "   frequencies, ranges, integrators, results); every callee is a parameter, applied to the forwarded arguments in source order;\n"
             "   `?` is rendered with option. *)\n"
             "Section Wrappers.\nVariable obj : Type.\n"
             "Record spdc := mk_spdc { " + "; ".join(f"{f} : obj" for f in FIELDS) + " }.\n"]
    for f in FIELDS:
        lines.append(f"Definition set_{f} (s : spdc) (v : obj) : spdc :=\n  mk_spdc " +
                     " ".join("v" if g == f else f"({g} s)" for g in FIELDS) + ".")
    lines.append("")
    todo = []
    for nm in WRAPPERS:
        its = [i for i in items if i.kind == "fn" and i.name == nm and "SPDC" in i.container]
        if len(its) != 1:
            raise Untranslatable(path, 0, f"SPDC::{nm} not found exactly once")
        todo.append((path, its[0], "wrappers:SPDC::" + nm, f"SPDC_{nm}_gen", f"SPDC::{nm}", True))
    for rel, nm in FREE:
        fpath = os.path.join(repo, rel)
        its = [i for i in parse_file(fpath) if i.kind == "fn" and i.name == nm and not i.container]
        if len(its) != 1:
            raise Untranslatable(fpath, 0, f"{nm} not found exactly once")
        todo.append((fpath, its[0], "wrappers:" + nm, f"{nm}_gen", f"{nm} ({rel})", False))
    for fpath, it, key, cname, title, method in todo:
        if it.error or it.body is None:
            raise Untranslatable(fpath, it.span[0], f"{title}: body does not parse")
        out.span(key, it)
        w = W(fpath, it)
        w.kind, w.passthrough = "obj", False
        params = list(it.params)
        if method:
            if not params or params[0][0] != ("pbind", "self", False):
                w.fail("first parameter is not self")
            params = params[1:]
        env = {}
        pnames = []
        for pat, ty in params:
            if pat[0] != "pbind":
                w.fail("parameter pattern")
            if pat[1] in FIELDS or pat[1].startswith("set_") or pat[1] in ("self", "obj"):
                w.fail("parameter name clashes with the record model: " + pat[1])
            env[pat[1]] = pat[1]
            tyc = (ty or "").replace(" ", "")
            if not method and tyc == "&SPDC":
                w.kinds[pat[1]] = "spdc"
            elif "SPDC" in tyc.replace("SPDCError", ""):
                w.fail("parameter of an SPDC type other than &SPDC: " + tyc)
            pnames.append((pat[1], w.kinds.get(pat[1], "obj")))
        stmts = [s for s in it.body[1]]
        if len([s for s in stmts if s[0] != "use"]) > MAX_STMTS:
            w.fail(f"more than {MAX_STMTS} statements")
        w.fallible = w.result_is_result()
        term = w.run(stmts, it.body[2], "self", env)
        binders = []
        for (on, kinds, res, fal) in w.oracles:
            ty = " -> ".join([coq_kind(k) for k in kinds] + [(f"option {coq_kind(res)}" if fal else coq_kind(res))])
            binders.append(f"({on} : {ty})")
        rty = coq_kind(w.kind)
        if w.fallible:
            rty = f"option {rty}"
        doc = "callees, in order of first use: " + (", ".join(o[0] for o in w.oracles) or "(none)")
        selfb = " (self : spdc)" if method else ""
        lines.append(f"(* {title} — {doc} *)\n"
                     f"Definition {cname} {' '.join(binders)}{selfb}{''.join(f' ({p} : {k})' for p, k in pnames)} : {rty} :=\n  {term}.\n")
    lines.append("End Wrappers.\n")
    names = ["mk_spdc"] + FIELDS + ["set_" + f for f in FIELDS] + [f"SPDC_{nm}_gen" for nm in WRAPPERS] + [f"{nm}_gen" for _, nm in FREE]
    lines.append("\n".join(f"Arguments {n} {{obj}}." for n in names) + "\n")
    out.write("Wrappers.v", "\n".join(lines))


GENS = {"wrappers": gen_wrappers}
