"""Generator `schmidt`: re-reads src/math/schmidt.rs::schmidt_number on every run and emits coq/Gen/SchmidtSrc.v.

The function is not in the formula subset of rs2coq's Evaluator (iterators, a matrix constructor, an SVD call), so this
generator checks the *shape* of the body statement by statement and translates the pieces that carry the property:
  - the length check (`dim = len.sqrt(); if <cond> { return Err }`)          -> src_accepted : N -> bool
  - the per-entry map (`|j| j.norm()`)                                        -> src_mag : cx R -> R
  - the matrix layout (`DMatrix::from_row_slice(dim, dim, &jsa_mag)`)         -> src_matrix
  - the reductions over the singular values and the final quotient            -> src_result
Anything else raises Untranslatable (reported as a broken obligation).  Proofs/C11_src.v proves the generated function
equal to the hand-written model of Model/Schmidt.v; that proof breaks when the source changes meaning."""
import os

from rustparse import parse_file, Untranslatable
from rs2coq import num_to_coq


def _fail(path, it, what):
    raise Untranslatable(path, it.span[0] if it else 0, what)


def n_expr(e, env, path, it):
    """usize expression -> Coq term over N"""
    k = e[0]
    if k == "path" and len(e[1]) == 1 and e[1][0] in env:
        return env[e[1][0]]
    if k == "num":
        return f"{int(e[1])}%N"
    if k == "bin" and e[1] in ("*", "+", "-"):
        return f"({n_expr(e[2], env, path, it)} {e[1]} {n_expr(e[3], env, path, it)})%N"
    if k == "mcall" and e[2] == "sqrt" and not e[3]:
        return f"(N.sqrt {n_expr(e[1], env, path, it)})"
    _fail(path, it, f"usize expression outside the subset: {e!r}"[:200])


def n_cond(e, env, path, it):
    if e[0] == "bin" and e[1] in ("!=", "==", "<", "<=", ">", ">="):
        a, b = n_expr(e[2], env, path, it), n_expr(e[3], env, path, it)
        return {"!=": f"(negb (N.eqb {a} {b}))", "==": f"(N.eqb {a} {b})", "<": f"(N.ltb {a} {b})", "<=": f"(N.leb {a} {b})",
                ">": f"(N.ltb {b} {a})", ">=": f"(N.leb {b} {a})"}[e[1]]
    _fail(path, it, f"condition outside the subset: {e!r}"[:200])


def r_expr(e, env, path, it):
    """f64 expression over named reals -> Coq term over R"""
    k = e[0]
    if k == "path" and len(e[1]) == 1 and e[1][0] in env:
        return env[e[1][0]]
    if k == "num":
        return num_to_coq(e[1])
    if k == "bin" and e[1] in ("*", "+", "-", "/"):
        return f"({r_expr(e[2], env, path, it)} {e[1]} {r_expr(e[3], env, path, it)})"
    if k == "unary" and e[1] == "-":
        return f"(- {r_expr(e[2], env, path, it)})"
    if k == "mcall" and e[2] == "powi" and len(e[3]) == 1 and e[3][0][0] == "num":
        return f"({r_expr(e[1], env, path, it)} ^ {int(e[3][0][1])})"
    if k == "mcall" and e[2] == "sqrt" and not e[3]:
        return f"(sqrt {r_expr(e[1], env, path, it)})"
    if k == "mcall" and e[2] == "abs" and not e[3]:
        return f"(Rabs {r_expr(e[1], env, path, it)})"
    _fail(path, it, f"f64 expression outside the subset: {e!r}"[:200])


def gen_schmidt(repo, out):
    path = os.path.join(repo, "src/math/schmidt.rs")
    items = [i for i in parse_file(path) if i.kind == "fn" and i.name == "schmidt_number"]
    if len(items) != 1:
        raise Untranslatable(path, 0, "schmidt_number not found exactly once")
    it = items[0]
    if it.error:
        raise it.error
    out.span("math::schmidt::schmidt_number", it)
    blk = it.body
    if blk[0] != "block":
        _fail(path, it, "body is not a block")
    stmts = [s for s in blk[1] if s != ("use",)]
    tail = blk[2]
    amp = ("mcall", ("path", ["amplitudes"]), "as_ref", [])
    if len(stmts) != 7:
        _fail(path, it, f"expected 7 statements (len, dim, check, jsa_mag, svd, norm_sq, kinv), found {len(stmts)}")
    # 1. let len = amplitudes.as_ref().len();
    if stmts[0] != ("let", ("pbind", "len", False), None, ("mcall", amp, "len", [])):
        _fail(path, it, "statement 1 is not `let len = amplitudes.as_ref().len()`")
    # 2. let dim = <usize expr of len>;
    s = stmts[1]
    if not (s[0] == "let" and s[1] == ("pbind", "dim", False)):
        _fail(path, it, "statement 2 is not `let dim = …`")
    dim = n_expr(s[3], {"len": "len"}, path, it)
    # 3. if <cond> { return Err(SPDCError(..)) }
    s = stmts[2]
    ok = (s[0] == "expr" and s[1][0] == "if" and s[1][3] is None and s[1][2][0] == "block" and len(s[1][2][1]) == 1
          and s[1][2][1][0][0] == "expr" and s[1][2][1][0][1][0] == "return"
          and s[1][2][1][0][1][1][0] == "call" and s[1][2][1][0][1][1][1] == ("path", ["Err"]))
    if not ok:
        _fail(path, it, "statement 3 is not `if <cond> { return Err(…) }`")
    cond = n_cond(s[1][1], {"len": "len", "dim": "dim"}, path, it)
    # 4. let jsa_mag: Vec<f64> = amplitudes.as_ref().iter().map(|j| j.<m>()).collect();
    s = stmts[3]
    ok = (s[0] == "let" and s[1] == ("pbind", "jsa_mag", False) and s[3][0] == "mcall" and s[3][2] == "collect"
          and s[3][1][0] == "mcall" and s[3][1][2] == "map" and s[3][1][1] == ("mcall", amp, "iter", [])
          and len(s[3][1][3]) == 1 and s[3][1][3][0][0] == "closure" and s[3][1][3][0][1] == [("pbind", "j", False)])
    if not ok:
        _fail(path, it, "statement 4 is not `let jsa_mag = amplitudes.as_ref().iter().map(|j| …).collect()`")
    body = s[3][1][3][0][2]
    mags = [(("mcall", ("path", ["j"]), "norm", []), "cmod j"),
            (("mcall", ("path", ["j"]), "norm_sqr", []), "cnorm2 ROps j"),
            (("field", ("path", ["j"]), "re"), "fst j"), (("field", ("path", ["j"]), "im"), "snd j")]
    mag = next((v for k, v in mags if k == body), None)
    if mag is None:
        _fail(path, it, f"per-entry map is not one of norm/norm_sqr/re/im: {body!r}"[:200])
    # 5. let svd = DMatrix::from_<layout>_slice(dim, dim, &jsa_mag).try_svd(..).ok_or(..)?;
    s = stmts[4]
    ok = (s[0] == "let" and s[1] == ("pbind", "svd", False) and s[3][0] == "try" and s[3][1][0] == "mcall" and s[3][1][2] == "ok_or"
          and s[3][1][1][0] == "mcall" and s[3][1][1][2] == "try_svd" and s[3][1][1][1][0] == "call")
    if not ok:
        _fail(path, it, "statement 5 is not `let svd = DMatrix::from_*_slice(..).try_svd(..).ok_or(..)?`")
    svd_args = s[3][1][1][3]
    if svd_args != [("bool", False), ("bool", False), ("path", ["f64", "EPSILON"]), ("num", "10000", None)]:
        _fail(path, it, f"try_svd arguments are not (false, false, f64::EPSILON, 10_000): {svd_args!r}")
    ctor = s[3][1][1][1]
    if ctor[2] != [("path", ["dim"]), ("path", ["dim"]), ("unary", "&", ("path", ["jsa_mag"]))]:
        _fail(path, it, "matrix constructor arguments are not (dim, dim, &jsa_mag)")
    layouts = [(("path", ["DMatrix", "from_row_slice"]), "fun r c => m (r * n + c)%nat"),
               (("path", ["DMatrix", "from_column_slice"]), "fun r c => m (c * n + r)%nat")]
    layout = next((v for k, v in layouts if k == ctor[1]), None)
    if layout is None:
        _fail(path, it, f"unknown matrix constructor {ctor[1]!r}")
    # 6. let norm_sq = svd.singular_values.norm_squared();
    sv = ("field", ("path", ["svd"]), "singular_values")
    if stmts[5] != ("let", ("pbind", "norm_sq", False), None, ("mcall", sv, "norm_squared", [])):
        _fail(path, it, "statement 6 is not `let norm_sq = svd.singular_values.norm_squared()`")
    # 7. let kinv = svd.singular_values.fold(init, |acc, x| acc + <expr x>);
    s = stmts[6]
    ok = (s[0] == "let" and s[1] == ("pbind", "kinv", False) and s[3][0] == "mcall" and s[3][1] == sv and s[3][2] == "fold"
          and len(s[3][3]) == 2 and s[3][3][1][0] == "closure" and s[3][3][1][1] == [("pbind", "acc", False), ("pbind", "x", False)]
          and s[3][3][1][2][0] == "bin" and s[3][3][1][2][1] == "+" and s[3][3][1][2][2] == ("path", ["acc"]))
    if not ok:
        _fail(path, it, "statement 7 is not `let kinv = svd.singular_values.fold(init, |acc, x| acc + …)`")
    init = r_expr(s[3][3][0], {}, path, it)
    term = r_expr(s[3][3][1][2][3], {"x": "(sv k)"}, path, it)
    # tail: Ok(<expr of norm_sq, kinv>)
    if not (tail and tail[0] == "call" and tail[1] == ("path", ["Ok"]) and len(tail[2]) == 1):
        _fail(path, it, "tail is not `Ok(…)`")
    result = r_expr(tail[2][0], {"norm_sq": "norm_sq", "kinv": "kinv"}, path, it)
    text = f"""(* GENERATED by tools/gen/schmidt.py from src/math/schmidt.rs (lines {it.span[0]}-{it.span[1]}) — do not edit; regenerated on every check run. *)
From Coq Require Import Reals NArith List String.
From SpdVerif Require Import Model.FinSum Model.Hom Model.Schmidt.
Local Open Scope R_scope.

(* let dim = …; if <cond> {{ return Err }} *)
Definition src_dim (len : N) : N := {dim}.
Definition src_accepted (len : N) : bool := let dim := src_dim len in negb {cond}.
(* |j| … *)
Definition src_mag (j : cx R) : R := {mag}.
(* DMatrix::from_…_slice(dim, dim, &jsa_mag) *)
Definition src_matrix (n : nat) (m : nat -> R) : nat -> nat -> R := {layout}.
(* norm_squared, the fold, the final quotient *)
Definition src_kinv (n : nat) (sv : nat -> R) : R := {init} + rsum n (fun k => {term}).
Definition src_result (n : nat) (sv : nat -> R) : R :=
  let norm_sq := rsum n (fun k => sv k * sv k) in
  let kinv := src_kinv n sv in
  {result}.
(* try_svd(compute_u, compute_v, eps, max_niter) as written in the source *)
Definition src_svd_args : bool * bool * string * N := (false, false, "f64::EPSILON"%string, 10000%N).

Definition src_schmidt_number (svd : nat -> (nat -> nat -> R) -> option (nat -> R)) (len : nat) (a : nat -> cx R) : outcome :=
  if src_accepted (N.of_nat len) then
    let dim := N.to_nat (src_dim (N.of_nat len)) in
    match svd dim (src_matrix dim (fun k => src_mag (a k))) with
    | None => ErrSvd
    | Some sv => if Req_EM_T (src_kinv dim sv) 0 then OkNaN else OkK (src_result dim sv)   (* x / 0.0 with x = 0: NaN *)
    end
  else ErrNotSquare.
"""
    # the setup-level wrapper JointSpectrum::schmidt_number
    wpath = os.path.join(repo, "src/jsa/joint_spectrum.rs")
    wits = [i for i in parse_file(wpath) if i.kind == "fn" and i.name == "schmidt_number" and "JointSpectrum" in i.container]
    if len(wits) != 1 or wits[0].error:
        raise Untranslatable(wpath, 0, "JointSpectrum::schmidt_number not found exactly once")
    out.span("jsa::JointSpectrum::schmidt_number", wits[0])
    want = ("block", [], ("call", ("path", ["crate", "math", "schmidt_number"]),
                          [("mcall", ("path", ["self"]), "jsa_range", [("mcall", ("path", ["range"]), "into", [])])]))
    if wits[0].body != want:
        _fail(wpath, wits[0], "JointSpectrum::schmidt_number is not crate::math::schmidt_number(self.jsa_range(range.into()))")
    text += """
(* JointSpectrum::schmidt_number(range) = crate::math::schmidt_number(self.jsa_range(range.into())); J is the setup's amplitude *)
Definition src_setup_schmidt_number (svd : nat -> (nat -> nat -> R) -> option (nat -> R)) (J : R -> R -> cx R) (g : grid R) : outcome :=
  src_schmidt_number svd (grid_len g) (tabulate J g).
"""
    out.write("SchmidtSrc.v", text)


GENS = {"schmidt": gen_schmidt}
