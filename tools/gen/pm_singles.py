"""Generator `pm_singles` (C08 limit clause; group I): symbolic execution of src/phasematch/singles.rs
phasematch_singles_fiber_coupling into coq/Gen/PMSingles.v — one Coq definition per `let` (pms_<name>), the 2-D integrand
pms_integrand p z1 z2 : C, and the fibre-coupled singles value with the 2-D quadrature as an oracle Q2.
Uses the complex-aware evaluator and the spdc accessor table of tools/gen/pm_integrand.py (fields of Model/PMParams.v)."""
import os
import sys

sys.path.insert(0, os.path.dirname(os.path.dirname(os.path.abspath(__file__))))
sys.path.insert(0, os.path.dirname(os.path.abspath(__file__)))
from rustparse import parse_file, Untranslatable  # noqa: E402
import rs2coq  # noqa: E402
from rs2coq import R, load_all  # noqa: E402
import pm_integrand as pmi  # noqa: E402
from pm_integrand import CX, P, SPDC, PMEval, Emitter, find_fn  # noqa: E402

QUAD2 = ("QUADRATURE2",)


class SEval(PMEval):
    def sub(self, fname):
        s = SEval(fname, self.all_items.get(("__file__", fname), []), self.all_items)
        s.used_params, s.alias, s.depth, s.apod_fmt = self.used_params, self.alias, self.depth, self.apod_fmt
        return s

    def mcall(self, e, env):
        recv, name, argexprs = e[1], e[2], e[3]
        if recv[0] == "path" and recv[1] == ["integrator"] and env.get("integrator") == QUAD2 and name == "integrate2d":
            args = [self.ev(a, env) for a in argexprs]
            if len(args) == 5 and isinstance(args[0], tuple) and args[0] and args[0][0] == "CLOSURE" and all(self.is_r(a) for a in args[1:]):
                return CX(f"(Q2 (pms_integrand p) {args[1]} {args[2]} {args[3]} {args[4]})")
            self.fail("integrate2d arguments", e)
        return super().mcall(e, env)


def gen_pm_singles(repo, out):
    allidx = load_all(repo)
    for f in ["src/beam/beam_waist.rs"]:
        pth = os.path.join(repo, f)
        items = parse_file(pth)
        allidx[("__file__", pth)] = items
        for it in items:
            for c in it.container:
                allidx.setdefault((c, it.name), it)
            allidx.setdefault(it.name, it)
    spath = os.path.join(repo, "src/phasematch/singles.rs")
    sitems = parse_file(spath)
    allidx[("__file__", spath)] = sitems
    it = find_fn(sitems, "phasematch_singles_fiber_coupling")
    out.span("singles::phasematch_singles_fiber_coupling", it)
    if [p[0] for p in it.params] != [("pbind", "omega_s", False), ("pbind", "omega_i", False), ("pbind", "spdc", False), ("pbind", "integrator", False)]:
        raise Untranslatable(spath, it.span[0], "phasematch_singles_fiber_coupling: parameter list changed")
    ev = SEval(spath, sitems, allidx)
    ev.used_params.update(["p_omega_s", "p_omega_i"])
    env = {"omega_s": P("p_omega_s"), "omega_i": P("p_omega_i"), "spdc": SPDC, "integrator": QUAD2}
    em = Emitter(ev, "pms_", "(p : pm_params)")
    blk = it.body
    # statements up to and including the closure; the rest (result = 0.25 * integrate2d(..).norm(); PerMeter3::new(result)) afterwards
    stmts = [s for s in blk[1] if s[0] != "use"]
    idx = [k for k, s in enumerate(stmts) if s[0] == "let" and s[3] is not None and s[3][0] == "closure"]
    if len(idx) != 1:
        raise Untranslatable(spath, it.span[0], "expected exactly one closure (fn_z)")
    k = idx[0]
    fname = stmts[k][1][1]
    em.run(stmts[:k + 1], ("path", [fname]), env)
    clo = env[fname]
    if not (isinstance(clo, tuple) and clo[0] == "CLOSURE" and len(clo[1]) == 2 and all(q[0] == "pbind" for q in clo[1])):
        raise Untranslatable(spath, it.span[0], "fn_z is not a two-argument closure")
    z1, z2 = clo[1][0][1], clo[1][1][1]
    cbody = clo[2]
    cenv = dict(clo[3])
    cenv[z1], cenv[z2] = R("z1"), R("z2")
    val = em.run(cbody[1], cbody[2], cenv, extra_binder=" (z1 z2 : R)", extra_arg=" z1 z2")
    if not isinstance(val, CX):
        raise Untranslatable(spath, it.span[0], "singles integrand value is not complex")
    body = [rs2coq.HEADER.format(src="src/phasematch/singles.rs"),
            "From Coq Require Import Bool.\nFrom Coquelicot Require Import Coquelicot.\nFrom SpdVerif Require Import Base.CxPM Model.PMParams.\n",
            "(* ---- phasematch_singles_fiber_coupling: one definition per `let`; p = scalar inputs, (z1, z2) in [-1, 1]^2 ---- *)\n",
            em.text(),
            f"Definition pms_integrand (p : pm_params) (z1 z2 : R) : C :=\n  {val}.\n"]
    # ---- the closure as a function of its captured coefficients (nested lets): pms_closure
    outer_ty = {d[0]: d[1] for d in em.defs if not d[3]}

    def paths(e, acc):
        if isinstance(e, tuple):
            if e and e[0] == "path" and len(e[1]) == 1:
                acc.add(e[1][0])
            for x in e:
                paths(x, acc)
        elif isinstance(e, list):
            for x in e:
                paths(x, acc)
        return acc
    used = paths(cbody, set())
    captured = [d[0] for d in em.defs if not d[3] and d[0] in used]
    cenv2 = dict(clo[3])
    # outer names that are direct parameter aliases (no definition of their own) and are read by the closure: parameters too
    import re as _re
    aliases = [(nme, v) for nme, v in clo[3].items() if isinstance(v, R) and _re.fullmatch(r"\(p_\w+ p\)", v) and nme in used
               and nme not in ("omega_s", "omega_i")]
    for nme, v in aliases:
        cenv2[nme] = R(nme)
        if v == P("p_L"):
            ev.length_alias = R(nme)
    for nme in captured:
        cenv2[nme] = CX(nme) if outer_ty[nme] == "C" else R(nme)
    cenv2[z1], cenv2[z2] = R("z1"), R("z2")
    ev.apod_fmt = "(apod {z})"
    lets_txt, seen = [], set()
    for st in cbody[1]:
        if st[0] == "use":
            continue
        if st[0] != "let" or st[3] is None:
            raise Untranslatable(spath, it.span[0], "closure statement outside the subset")
        nme = st[1][1] if st[1][0] == "pbind" else st[1][1][0]
        v = ev.ev(st[3], cenv2)
        if not isinstance(v, (CX, R)) or nme in seen or nme in captured:
            raise Untranslatable(spath, it.span[0], f"closure let {nme}")
        seen.add(nme)
        ty = "C" if isinstance(v, CX) else "R"
        lets_txt.append(f"  let {nme} : {ty} := {v} in")
        cenv2[nme] = CX(nme) if ty == "C" else R(nme)
    resc = ev.ev(cbody[2], cenv2)
    ev.apod_fmt = "(p_apod p {z})"
    ev.length_alias = None
    binders = " ".join([f"({n} : R)" for n, _ in aliases] + [f"({n} : {outer_ty[n]})" for n in captured])
    body.append("(* ---- the same closure as a function of its captured coefficients ---- *)\n"
                f"Definition pms_closure (apod : R -> R) {binders} (z1 z2 : R) : C :=\n" + "\n".join(lets_txt) + f"\n  {resc}.\n")
    body.append("Definition pms_closure_of (p : pm_params) (z1 z2 : R) : C :=\n  pms_closure (p_apod p) "
                + " ".join([str(v) for _, v in aliases] + [f"(pms_{n} p)" for n in captured]) + " z1 z2.\n")

    # the remaining statements
    env2 = dict(env)
    rest = stmts[k + 1:]
    tail = blk[2]
    em2 = Emitter(ev, "pms_out_", "(Q2 : (R -> R -> C) -> R -> R -> R -> R -> C) (p : pm_params)")
    res = em2.run(rest, tail, env2)
    if not ev.is_r(res):
        raise Untranslatable(spath, it.span[0], "phasematch_singles_fiber_coupling value is not real")
    body.append("(* ---- the value: Q2 is `integrator.integrate2d` (an oracle: any functional of the integrand) ---- *)\n")
    body.append(em2.text())
    body.append("Definition pms_fiber_coupling (Q2 : (R -> R -> C) -> R -> R -> R -> R -> C) (p : pm_params) : R :=\n  " + str(res).replace("(pms_out_result Q p)", "(pms_out_result Q2 p)") + ".\n")
    body.append("Definition pms_integrand_lets : list string :=\n  [" + "; ".join(f'"{d[0]}"' for d in em.defs) + "].\n")
    out.write("PMSingles.v", "\n".join(body))


GENS = {"pm_singles": gen_pm_singles}
