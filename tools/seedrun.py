#!/usr/bin/env python3
"""seedrun.py <PID> [tier]  — run ./check <PID> against every seeded change seeded/<PID>-k (applied to /repo, always undone),
record the outcome in seeded/<PID>-k/meta.json (`detected_by`) and print a summary."""
import json
import os
import re
import subprocess
import sys

pid = sys.argv[1]
tier = sys.argv[2] if len(sys.argv) > 2 else "quick"
root = os.path.join(os.path.dirname(os.path.dirname(os.path.abspath(__file__))), "seeded")
VERIF = os.environ.get("SEED_VERIF", "/verif")   # a scratch clone of /verif may be used while other work builds against /repo
REPO = os.environ.get("SEED_REPO", "/repo")
rows = []
for d in sorted(os.listdir(root), key=lambda s: (s.split("-")[0], int(s.split("-")[1]))):
    if not d.startswith(pid + "-"):
        continue
    patch = os.path.join(root, d, "patch.diff")
    st = subprocess.run(["git", "-C", REPO, "status", "--porcelain"], capture_output=True, text=True).stdout.strip()
    if st:
        print("refusing: /repo not clean"); sys.exit(2)
    r = subprocess.run(["git", "-C", REPO, "apply", "--3way", patch], capture_output=True, text=True)
    if r.returncode != 0:
        subprocess.run(["git", "-C", REPO, "reset", "-q", "--hard", "HEAD"])
        rows.append((d, "patch does not apply to current /repo HEAD", []))
        out = {"check": f"./check {pid} --tier {tier}", "result": "not run: patch does not apply to the current /repo HEAD (" + r.stderr.strip()[:200] + ")"}
    else:
        subprocess.run(["git", "-C", REPO, "reset", "-q"])
        try:
            c = subprocess.run(["./check", pid, "--tier", tier], cwd=VERIF, env=dict(os.environ, VERIF_REPO=REPO), capture_output=True, text=True, timeout=5400)
            viol = [l for l in c.stdout.splitlines() if l.startswith("VIOLATION")]
            broken = [l.strip() for l in c.stdout.splitlines() if "proof obligation broken" in l]
            concrete = [v for v in viol if not v.rstrip().endswith("no-failing-input-found")]
            crashed = [v for v in viol if "internal error of the check" in v or "check could not run" in v]
            res = ("CHECK ERROR (the check itself failed; not counted as detection)" if crashed and len(crashed) == len(viol) else "DETECTED (concrete failing input)" if [v for v in concrete if v not in crashed] else "DETECTED (broken obligation, no failing input found)" if viol else "MISSED")
            rows.append((d, f"exit {c.returncode}: {res}", viol[:2]))
            out = {"check": f"python3 tools/seedtest.py seeded/{d}/patch.diff {pid} {tier}", "exit": c.returncode, "result": res,
                   "violation_lines": [v[:400] for v in viol[:4]], "broken_obligations": broken[:4]}
        finally:
            subprocess.run(["git", "-C", REPO, "checkout", "--", "."], check=True)
            subprocess.run(["git", "-C", REPO, "clean", "-fdq", "--", "src", "examples", "tests"])
    mp = os.path.join(root, d, "meta.json")
    m = json.load(open(mp))
    m["detected_by"] = out
    json.dump(m, open(mp, "w"), indent=1)
for d, res, viol in rows:
    print(f"{d}: {res}")
    for v in viol:
        print("    " + v[:260])
st = subprocess.run(["git", "-C", REPO, "status", "--porcelain"], capture_output=True, text=True).stdout.strip()
print("repo:", "clean" if not st else st)
