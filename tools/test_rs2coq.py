#!/usr/bin/env python3
"""Unit tests of the translator's fail-closed behaviour (run: python3 tools/test_rs2coq.py).  Each snippet is a Rust function
whose naive real-arithmetic translation would be WRONG; the translator must refuse it (Untranslatable), and a few that
are fine must translate."""
import os
import sys
import tempfile

sys.path.insert(0, os.path.dirname(os.path.abspath(__file__)))
import rs2coq  # noqa: E402
from rs2coq import Evaluator, R, Untranslatable  # noqa: E402
from rustparse import parse_file  # noqa: E402

os.environ.pop("RS2COQ_RECORD_ASSERTS", None)


def run(src, fn="f", args=("x",)):
    with tempfile.NamedTemporaryFile("w", suffix=".rs", delete=False) as f:
        f.write(src)
        path = f.name
    try:
        items = parse_file(path)
        it = [i for i in items if i.kind == "fn" and i.name == fn][0]
        return Evaluator(path, items, {}).call_fn(it, [R(a) for a in args])
    finally:
        os.unlink(path)


REFUSE = {
    "integer division of literals": "fn f(x: f64) -> f64 { (1 / 2) as f64 * x }",
    "integer division under cast": "fn f(x: f64, n: usize) -> f64 { (n / 2) as f64 * x }",
    "return in a let initialiser": "fn f(x: f64) -> f64 { let v = if x < 0. { return 0.; } else { x.sqrt() }; v + 1. }",
    "assignment inside a value block": "fn f(x: f64) -> f64 { let mut y = 1.; let z = { y = 2.; y }; y + z + x }",
    "new assert": "fn f(x: f64) -> f64 { assert!(x < 5000.); x }",
    "return inside loop-free nested arg": "fn g(a: f64) -> f64 { a }\nfn f(x: f64) -> f64 { g(if x < 0. { return 1.; } else { x }) }",
}
ACCEPT = {
    "early return pattern": ("fn f(x: f64) -> f64 { if x < 0. { return 0.; } x.sqrt() }", "(if Rlt_dec x 0 then 0 else (sqrt x))"),
    "tail if/else with returns": ("fn f(x: f64) -> f64 { if x < 0. { return 0.; } else { return x; } }", None),
    "float division": ("fn f(x: f64) -> f64 { (1. / 2.) * x }", "((1 / 2) * x)"),
    "int cast without division": ("fn f(x: f64, n: usize) -> f64 { (n - 1) as f64 * x }", None),
}


def main():
    bad = 0
    for name, src in REFUSE.items():
        args = ("x", "n") if "n: usize" in src else ("x",)
        try:
            v = run(src, args=args)
            print(f"FAIL (accepted, should refuse): {name}: {v}")
            bad += 1
        except Untranslatable as e:
            print(f"ok   refused: {name}: {str(e)[:90]}")
    for name, (src, expect) in ACCEPT.items():
        args = ("x", "n") if "n: usize" in src else ("x",)
        try:
            v = run(src, args=args)
            if expect is not None and str(v) != expect:
                print(f"FAIL (wrong translation): {name}: {v} != {expect}")
                bad += 1
            else:
                print(f"ok   translated: {name}: {v}")
        except Untranslatable as e:
            print(f"FAIL (refused, should translate): {name}: {e}")
            bad += 1
    return 1 if bad else 0


if __name__ == "__main__":
    sys.exit(main())
