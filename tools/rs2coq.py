#!/usr/bin/env python3
"""rs2coq — translator from the formula-and-table subset of spdcalc's Rust source to Coq (tie #1).

Usage: rs2coq.py <repo> <outdir>     writes <outdir>/*.v (only when content changed) and
                                      <outdir>/spans.json (source spans + sha256 of every translated item).

The translator is a symbolic evaluator over the AST of tools/rustparse.py: it *runs* a Rust function body with
symbolic real arguments and emits the resulting expression as a Coq term over R.  Supported values:
  R    real scalar (Coq term string)         — f64, dimensioned quantities (unit factors from UNIT below)
  V3   3-vector of R                         — nalgebra Vector3
  ARR  array of values, TUP tuple, STRUCT record of values (struct literals, `self`)
  B    boolean condition  ('cmp', op, a, b) | ('and'|'or', x, y) | ('not', x)
If the source leaves the subset the translator raises Untranslatable → the check reports a broken obligation.
"""
import hashlib
import json
import os
import re
import sys

sys.path.insert(0, os.path.dirname(os.path.abspath(__file__)))
from rustparse import parse_file, Untranslatable, find  # noqa: E402

# unit constants of the `dimensioned` crate as the code uses them: SI base units are 1, prefixes are powers of ten.
UNIT = {
    "M": "1", "K": "1", "RAD": "1", "S": "1", "HZ": "1", "W": "1", "V": "1", "J": "1", "ONE": "1",
    "MICRO": "1e-6", "NANO": "1e-9", "MILLI": "1e-3", "PICO": "1e-12", "TERA": "1e12", "FEMTO": "1e-15",
    "KILO": "1e3", "MEGA": "1e6", "GIGA": "1e9", "CENTI": "1e-2",
    "PI": "PI", "TWO_PI": "(2 * PI)", "PI2": "(2 * PI)",
    "DEG": "(PI / 180)",
    "C_": "299792458",
}
# constructors that only wrap a value in a unit type
WRAPPERS = {"Kelvin::new", "Unitless::new", "Indices::new", "UCUM::new", "Meter::new", "Wavelength::new",
            "Angle::new", "Frequency::new", "Hertz::new", "Some", "Ok", "Box::new"}


class R(str):
    """a Coq term of type R (already parenthesised where needed)"""


class RI(R):
    """a term built from INTEGER literals only (Rust evaluates it in an integer type): `/` on two of these truncates in
    Rust, so it is refused rather than translated as real division"""


# assert!-s met inside translated bodies: key -> text.  An assertion is a panic condition of the real function that the
# real-valued translation does not carry; the ones present today are listed in tools/assert_allow.json (each is either turned
# into a theorem guard by its generator or named in DESIGN §3 as not modelled).  An assertion that is NOT in that list makes
# the translation fail, so adding one to a translated function cannot go unnoticed.
ASSERTS_SEEN = set()
_ALLOW = None


def assert_allowed(key):
    global _ALLOW
    if _ALLOW is None:
        p = os.path.join(os.path.dirname(os.path.abspath(__file__)), "assert_allow.json")
        try:
            _ALLOW = set(json.load(open(p)))
        except (OSError, ValueError):
            _ALLOW = set()
    return key in _ALLOW or os.environ.get("RS2COQ_RECORD_ASSERTS") == "1"


def num_to_coq(txt):
    t = txt
    if t.endswith("."):
        t = t[:-1]
    if re.fullmatch(r"[0-9]+\.[0-9]*[eE][-+]?[0-9]+|[0-9]+[eE][-+]?[0-9]+|[0-9]+\.[0-9]+|[0-9]+", t):
        t = t.replace("E", "e").replace("e+", "e")
        if "." in t and t.split(".")[1].startswith("e"):
            t = t.replace(".e", "e")
        # canonical form: no trailing zeros in the fraction (`1.0` breaks Coq's `field`), same real number
        mant, _, exp = t.partition("e")
        if "." in mant:
            mant = mant.rstrip("0").rstrip(".")
        t = mant + ("e" + exp if exp else "")
        return t
    raise ValueError(txt)


def int_div_under(e):
    """does the AST e (the operand of `as f64`) perform `/` or `%` before the cast (not inside a nested cast or call)?"""
    k = e[0]
    if k == "paren":
        return int_div_under(e[1])
    if k == "bin":
        if e[1] in ("/", "%"):
            return True
        return int_div_under(e[2]) or int_div_under(e[3])
    if k == "unary":
        return int_div_under(e[2])
    return False


def note_assert(fname, e):
    key = os.path.basename(fname) + ":" + hashlib.sha256(repr(e[2]).encode()).hexdigest()[:16]
    ASSERTS_SEEN.add(key)
    if not assert_allowed(key):
        raise Untranslatable(fname, 0, f"assert! not present when the translation was written (key {key}): the model does not carry its panic condition: {str(e[2])[:160]}")


def _contains_return(e):
    if isinstance(e, tuple):
        if e and e[0] == "return":
            return True
        if e and e[0] == "closure":
            return False          # a return inside a closure returns from the closure
        return any(_contains_return(x) for x in e)
    if isinstance(e, list):
        return any(_contains_return(x) for x in e)
    return False


def _check_value_block_assignments(it):
    """a block used for its VALUE (let initialiser, operand, argument) is evaluated on a copy of the environment: an
    assignment in it to a variable declared outside would be lost.  Refuse."""

    def declared_in(stmts):
        out = set()
        for st in stmts:
            if st[0] == "let":
                out |= Evaluator.pattern_names(st[1])
        return out

    def assigned_in(node, acc):
        if isinstance(node, tuple):
            if node and node[0] == "assign" and node[2][0] == "path" and len(node[2][1]) == 1:
                acc.add(node[2][1][0])
            if node and node[0] == "closure":
                return
            for x in node:
                assigned_in(x, acc)
        elif isinstance(node, list):
            for x in node:
                assigned_in(x, acc)

    def value_expr(e):
        """e is evaluated for its value"""
        if not isinstance(e, tuple) or not e:
            return
        k = e[0]
        if k == "block":
            acc = set()
            assigned_in(e[1], acc)
            lost = acc - declared_in(e[1])
            if lost:
                raise Untranslatable(it.file, it.span[0], f"{it.name}: assignment to {sorted(lost)} inside a block used as a value")
            for st in e[1]:
                walk_stmt(st)
            if e[2] is not None:
                value_expr(e[2])
            return
        if k == "closure":
            return
        for x in e[1:]:
            if isinstance(x, tuple):
                value_expr(x)
            elif isinstance(x, list):
                for y in x:
                    if isinstance(y, tuple):
                        value_expr(y) if (y and isinstance(y[0], str)) else [value_expr(z) for z in y if isinstance(z, tuple)]

    def walk_stmt(st):
        if st[0] == "let" and st[3] is not None:
            value_expr(st[3])
        elif st[0] == "assign":
            value_expr(st[3])

    for st in it.body[1]:
        walk_stmt(st)
    if it.body[2] is not None and it.body[2][0] not in ("block", "if", "iflet", "match"):
        value_expr(it.body[2])


def check_control_flow(it):
    """Syntactic pre-pass (independent of evaluator subclasses): the symbolic evaluator treats `return` as 'the value of the
    enclosing block', which is only right in tail position of the function body, or in the statement pattern
    `if c { …; return X; }` directly inside a tail-position block.  Any other `return` is refused."""
    if getattr(it, "_cf_ok", False) or it.body is None:
        return

    def tail_expr(e):
        k = e[0]
        if k == "return":
            if e[1] is not None and _contains_return(e[1]):
                raise Untranslatable(it.file, it.span[0], f"{it.name}: nested `return`")
            return
        if k == "paren":
            return tail_expr(e[1])
        if k == "block":
            return tail_block(e)
        if k == "if":
            if _contains_return(e[1]):
                raise Untranslatable(it.file, it.span[0], f"{it.name}: `return` inside a condition")
            tail_block(e[2])
            if e[3] is not None:
                tail_expr(e[3]) if e[3][0] != "block" else tail_block(e[3])
            return
        if k == "iflet":
            tail_block(e[3])
            if e[4] is not None:
                tail_expr(e[4]) if e[4][0] != "block" else tail_block(e[4])
            return
        if k == "match":
            if _contains_return(e[1]):
                raise Untranslatable(it.file, it.span[0], f"{it.name}: `return` inside a match scrutinee")
            for _pat, guard, body in e[2]:
                if guard is not None and _contains_return(guard):
                    raise Untranslatable(it.file, it.span[0], f"{it.name}: `return` inside a match guard")
                tail_expr(body)
            return
        if _contains_return(e):
            raise Untranslatable(it.file, it.span[0], f"{it.name}: `return` in expression position (not a tail position): {str(e)[:120]}")

    def tail_block(b):
        for st in b[1]:
            k = st[0]
            if k == "expr" and st[1][0] in ("if", "iflet") and (st[1][3] if st[1][0] == "if" else st[1][4]) is None:
                inner = st[1][2] if st[1][0] == "if" else st[1][3]
                cond = st[1][1] if st[1][0] == "if" else st[1][2]
                if _contains_return(cond):
                    raise Untranslatable(it.file, it.span[0], f"{it.name}: `return` inside a condition")
                if _contains_return(inner):
                    tail_block(inner)       # the `if c { …; return X; }` pattern
                continue
            if k == "expr" and st[1][0] == "return":
                continue                    # a trailing `return x;` statement
            if k == "expr" and st[1][0] == "if" and st[1][3] is not None and _contains_return(st[1]):
                # statement-level if/else with returns: each branch must itself be well-formed as a tail
                tail_expr(st[1])
                continue
            if _contains_return(st):
                raise Untranslatable(it.file, it.span[0], f"{it.name}: `return` outside tail position: {str(st)[:140]}")
        if b[2] is not None:
            tail_expr(b[2])

    tail_block(it.body)
    _check_value_block_assignments(it)
    it._cf_ok = True


class Evaluator:
    def __init__(self, fname, items, all_items=None, consts=None):
        self.fname = fname
        self.items = items            # items of this file
        self.all_items = all_items or {}  # name -> Item, helper functions from other files
        self.consts = consts or {}    # extra constants name -> value
        self.depth = 0

    def fail(self, what, e=None):
        raise Untranslatable(self.fname, 0, what + (f" in {e!r}"[:200] if e is not None else ""))

    @staticmethod
    def pattern_names(pat):
        k = pat[0]
        if k == "pbind":
            return {pat[1]}
        if k in ("ptuple", "pslice", "por"):
            out = set()
            for p in pat[1]:
                out |= Evaluator.pattern_names(p)
            return out
        if k == "pref":
            return Evaluator.pattern_names(pat[1])
        if k == "ppath" and len(pat[1]) == 1:
            return {pat[1][0]}
        return set()

    # ---- lookup
    def lookup_const(self, name, module=None):
        """module: the path segment before the name when it is a (lower-case) module name, e.g. `bbo_1::META`; a constant of
        that name from a DIFFERENT known source file must not be picked up instead"""
        own = os.path.splitext(os.path.basename(self.fname))[0]
        qualified_elsewhere = module is not None and module not in ("self", "super", "crate", own) and any(
            isinstance(k, tuple) and k[0] == "__file__" and os.path.splitext(os.path.basename(k[1]))[0] == module
            for k in self.all_items)
        if qualified_elsewhere:
            for k, items in self.all_items.items():
                if isinstance(k, tuple) and k[0] == "__file__" and os.path.splitext(os.path.basename(k[1]))[0] == module:
                    for it in items:
                        if it.kind == "const" and it.name == name and it.body is not None:
                            return Evaluator(it.file, items, self.all_items, self.consts).ev(it.body, {})
            self.fail(f"constant {module}::{name} not found in module {module}")
        for it in self.items:
            if it.kind == "const" and it.name == name and it.body is not None:
                return self.ev(it.body, {})
        if name in self.consts:
            return self.consts[name]
        if name in self.all_items and self.all_items[name].kind == "const":
            return self.ev(self.all_items[name].body, {})
        if name in UNIT:
            return R(UNIT[name])
        return None

    def lookup_fn(self, name, container=None):
        for it in self.items:
            if it.kind == "fn" and it.name == name and ((container is None and not it.container) or container in it.container):
                return it
        if container is None:
            for it in self.items:
                if it.kind == "fn" and it.name == name:
                    return it
        it = self.all_items.get((container, name)) or (self.all_items.get(name) if container is None else None)
        if it is not None and it.kind == "fn":
            return it
        return None

    # ---- values
    @staticmethod
    def is_r(v):
        return isinstance(v, R)

    def paren(self, s):
        return R(f"({s})")

    def arith(self, op, a, b, e=None):
        if self.is_r(a) and self.is_r(b):
            if isinstance(a, RI) and isinstance(b, RI):
                if op == "/":
                    self.fail("integer division of integer literals (truncates in Rust)", e)
                return RI(f"({a} {op} {b})")
            return self.paren(f"{a} {op} {b}")
        if isinstance(a, tuple) and a[0] == "V3" and isinstance(b, tuple) and b[0] == "V3" and op in "+-":
            return ("V3", [self.arith(op, x, y) for x, y in zip(a[1], b[1])])
        if isinstance(a, tuple) and a[0] == "V3" and self.is_r(b) and op in "*/":
            return ("V3", [self.arith(op, x, b) for x in a[1]])
        if self.is_r(a) and isinstance(b, tuple) and b[0] == "V3" and op == "*":
            return ("V3", [self.arith(op, a, y) for y in b[1]])
        self.fail(f"arith {op} on {a!r} {b!r}", e)

    def call_fn(self, it, args, self_val=None):
        if it.error:
            raise it.error
        check_control_flow(it)
        self.depth += 1
        if self.depth > 30:
            self.fail("recursion too deep")
        env = {}
        params = list(it.params)
        if params and params[0][0] == ("pbind", "self", False):
            env["self"] = self_val
            params = params[1:]
        if len(params) != len(args):
            self.fail(f"arity mismatch calling {it.name}")
        for (pat, _ty), a in zip(params, args):
            self.bind(pat, a, env)
        try:
            return self.block(it.body, env)
        finally:
            self.depth -= 1

    def bind(self, pat, val, env):
        k = pat[0]
        if k == "pbind":
            env[pat[1]] = val
        elif k == "pwild":
            pass
        elif k == "ptuple":
            if not (isinstance(val, tuple) and val[0] == "TUP" and len(val[1]) == len(pat[1])):
                self.fail(f"tuple pattern vs {val!r}")
            for p, v in zip(pat[1], val[1]):
                self.bind(p, v, env)
        elif k == "pref":
            self.bind(pat[1], val, env)
        elif k == "ppath" and len(pat[1]) == 1:
            env[pat[1][0]] = val
        else:
            self.fail(f"pattern {pat!r}")

    # ---- blocks and statements
    def block(self, blk, env):
        assert blk[0] == "block", blk
        env = dict(env)
        return self.stmts(blk[1], blk[2], env)

    def stmts(self, stmts, tail, env):
        for idx, s in enumerate(stmts):
            k = s[0]
            if k == "use":
                continue
            if k == "let":
                if s[3] is None:
                    self.fail("let without initialiser")
                self.bind(s[1], self.ev(s[3], env), env)
            elif k == "assign":
                op, lhs, rhs = s[1], s[2], s[3]
                if lhs[0] != "path" or len(lhs[1]) != 1:
                    self.fail("assignment to non-variable", s)
                name = lhs[1][0]
                v = self.ev(rhs, env)
                if op == "=":
                    env[name] = v
                else:
                    env[name] = self.arith(op[0], env[name], v, s)
            elif k == "expr":
                e = s[1]
                # `if c { return X; }` followed by the rest
                if e[0] == "if" and e[3] is None and self.returns(e[2]):
                    c = self.cond(e[1], env)
                    then = self.block_ret(e[2], env)
                    rest = self.stmts(stmts[idx + 1:], tail, dict(env))
                    return self.ite(c, then, rest)
                if e[0] == "macro" and e[1] in ("lazy_static::lazy_static", "lazy_static"):
                    continue
                if e[0] == "macro" and e[1] in ("assert", "debug_assert", "assert_eq", "assert_ne", "debug_assert_eq"):
                    note_assert(self.fname, e)
                    continue
                if e[0] == "return":
                    return self.ev(e[1], env)
                self.fail("expression statement", e)
            else:
                self.fail(f"statement {k}", s)
        if tail is None:
            self.fail("block without value")
        if tail[0] == "return":
            return self.ev(tail[1], env)
        return self.ev(tail, env)

    def returns(self, blk):
        return blk[0] == "block" and ((blk[2] is not None and blk[2][0] == "return")
                                      or (blk[1] and blk[1][-1][0] == "expr" and blk[1][-1][1][0] == "return"))

    def block_ret(self, blk, env):
        stmts = list(blk[1])
        tail = blk[2]
        if tail is None:
            tail = stmts.pop()[1]
        return self.stmts(stmts, tail, dict(env))

    def ite(self, c, a, b):
        if self.is_r(a) and self.is_r(b):
            return self.paren(f"if {self.cond_coq(c)} then {a} else {b}")
        if isinstance(a, tuple) and isinstance(b, tuple) and a[0] == b[0] and a[0] in ("V3", "TUP", "ARR"):
            return (a[0], [self.ite(c, x, y) for x, y in zip(a[1], b[1])])
        if a == b:
            return a
        return ("ITE", c, a, b)

    # ---- conditions
    def cond(self, e, env):
        k = e[0]
        if k == "paren":
            return self.cond(e[1], env)
        if k == "bin" and e[1] in ("<", "<=", ">", ">=", "==", "!="):
            a, b = self.ev(e[2], env), self.ev(e[3], env)
            return ("cmp", e[1], a, b)
        if k == "bin" and e[1] in ("&&", "||"):
            return ("and" if e[1] == "&&" else "or", self.cond(e[2], env), self.cond(e[3], env))
        if k == "unary" and e[1] == "!":
            return ("not", self.cond(e[2], env))
        if k == "bool":
            return ("const", e[1])
        v = self.ev(e, env)
        if isinstance(v, tuple) and v[0] in ("cmp", "and", "or", "not", "const", "bvar"):
            return v
        self.fail("condition", e)

    def cond_coq(self, c):
        k = c[0]
        if k == "cmp":
            op, a, b = c[1], c[2], c[3]
            if not (self.is_r(a) and self.is_r(b)):
                self.fail(f"comparison of non-reals {a!r} {b!r}")
            f = {"<": "Rlt_dec", "<=": "Rle_dec", ">": "Rgt_dec", ">=": "Rge_dec", "==": "Req_EM_T", "!=": None}[op]
            if f is None:
                return f"(negb (if Req_EM_T {a} {b} then true else false))"
            return f"{f} {a} {b}"
        if k == "and":
            return f"(bool_dec (andb (if {self.cond_coq(c[1])} then true else false) (if {self.cond_coq(c[2])} then true else false)) true)"
        if k == "or":
            return f"(bool_dec (orb (if {self.cond_coq(c[1])} then true else false) (if {self.cond_coq(c[2])} then true else false)) true)"
        if k == "not":
            return f"(bool_dec (if {self.cond_coq(c[1])} then true else false) false)"
        if k == "const":
            return "(bool_dec true true)" if c[1] else "(bool_dec true false)"
        self.fail(f"cond {c!r}")

    # ---- expressions
    METH1 = {"sqrt": "sqrt", "abs": "Rabs", "sin": "sin", "cos": "cos", "tan": "tan", "exp": "exp", "ln": "ln",
             "atan": "atan", "asin": "asin", "acos": "acos"}

    def ev(self, e, env):
        k = e[0]
        if k == "paren":
            return self.ev(e[1], env)
        if k == "num":
            t = num_to_coq(e[1])
            is_int = re.fullmatch(r"[0-9]+", t) is not None and "." not in e[1] and (len(e) < 3 or e[2] not in ("f64", "f32"))
            return RI(t) if is_int else R(t)
        if k == "path":
            segs = e[1]
            name = segs[-1]
            if len(segs) == 1 and name in env:
                return env[name]
            if name == "None" and len(segs) <= 2:
                return ("STRUCT", "None", {})
            mod = segs[-2] if len(segs) > 1 and segs[-2][:1].islower() else None
            try:
                v = self.lookup_const(name, mod)
            except TypeError:      # a subclass overriding lookup_const with the old one-argument signature
                v = self.lookup_const(name)
            if v is not None:
                return v
            if name[0].isupper():
                return ("ENUM", segs[-2] if len(segs) > 1 else None, name)
            self.fail(f"unknown name {'::'.join(segs)}", e)
        if k == "unary":
            v = self.ev(e[2], env)
            if e[1] in ("*", "&"):
                return v
            if e[1] == "-":
                if self.is_r(v):
                    return self.paren(f"- {v}")
                if v[0] == "V3":
                    return ("V3", [self.paren(f"- {x}") for x in v[1]])
            self.fail("unary", e)
        if k == "bin":
            op = e[1]
            if op in ("+", "-", "*", "/"):
                return self.arith(op, self.ev(e[2], env), self.ev(e[3], env), e)
            if op in ("<", "<=", ">", ">=", "==", "!=", "&&", "||"):
                return self.cond(e, env)
            self.fail(f"operator {op}", e)
        if k == "cast":
            if e[2].strip() == "f64" and int_div_under(e[1]):
                self.fail("`as f64` applied to an integer-typed expression containing `/` or `%` (integer division truncates)", e)
            v = self.ev(e[1], env)
            if e[2].strip() == "f64":
                return R(str(v)) if isinstance(v, RI) else v
            self.fail(f"cast to {e[2]}", e)
        if k == "tuple":
            return ("TUP", [self.ev(x, env) for x in e[1]])
        if k == "array":
            return ("ARR", [self.ev(x, env) for x in e[1]])
        if k == "struct":
            if e[3] is not None:
                self.fail("struct update syntax", e)
            return ("STRUCT", e[1][-1], {f: self.ev(x, env) for f, x in e[2]})
        if k == "str":
            return ("STR", e[1])
        if k == "bool":
            return ("const", e[1])
        if k == "field":
            v = self.ev(e[1], env)
            if isinstance(v, tuple) and v[0] == "STRUCT":
                if e[2] not in v[2]:
                    self.fail(f"no field {e[2]}", e)
                return v[2][e[2]]
            if isinstance(v, tuple) and v[0] in ("TUP", "ARR") and e[2].isdigit():
                return v[1][int(e[2])]
            if isinstance(v, tuple) and v[0] == "V3" and e[2] in ("x", "y", "z"):
                return v[1]["xyz".index(e[2])]
            self.fail(f"field {e[2]} of {v!r}", e)
        if k == "index":
            v = self.ev(e[1], env)
            ix = e[2]
            if isinstance(v, tuple) and v[0] in ("ARR", "V3") and ix[0] == "num":
                return v[1][int(ix[1])]
            self.fail("index", e)
        if k == "if":
            c = self.cond(e[1], env)
            if e[3] is None:
                self.fail("if without else as value", e)
            a = self.block(e[2], env)
            b = self.block(e[3], env) if e[3][0] == "block" else self.ev(e[3], env)
            return self.ite(c, a, b)
        if k == "block":
            return self.block(e, env)
        if k == "call":
            return self.call(e, env)
        if k == "mcall":
            return self.mcall(e, env)
        if k == "closure":
            return ("CLOSURE", e[1], e[2], dict(env))
        if k == "return":
            return self.ev(e[1], env)
        if k == "match":
            return self.match(e, env)
        self.fail(f"expression kind {k}", e)

    def match(self, e, env):
        v = self.ev(e[1], env)
        if isinstance(v, tuple) and v[0] == "ENUM":
            for pat, guard, body in e[2]:
                pats = pat[1] if pat[0] == "por" else [pat]
                for p in pats:
                    if p[0] == "pwild" or (p[0] == "ppath" and p[1][-1] == v[2]):
                        if guard is not None:
                            self.fail("match guard", e)
                        return self.ev(body, env)
            self.fail("no arm matches", e)
        self.fail("match on non-constant", e)

    def call(self, e, env):
        f = e[1]
        if f[0] != "path":
            # calling a closure value
            fv = self.ev(f, env)
            return self.apply_closure(fv, [self.ev(a, env) for a in e[2]], e)
        segs = f[1]
        name = segs[-1]
        full2 = "::".join(segs[-2:])
        args = [self.ev(a, env) for a in e[2]]
        if len(segs) == 1 and name in env:
            return self.apply_closure(env[name], args, e)
        if full2 in WRAPPERS or name in ("Some", "Ok"):
            return args[0]
        if full2 in ("Vector3::new",):
            return ("V3", args)
        if full2 == "Vector3::repeat":
            return ("V3", [args[0]] * 3)
        if full2 == "Vector3::from_column_slice":
            a = args[0]
            if a[0] == "ARR" and len(a[1]) == 3:
                return ("V3", list(a[1]))
            self.fail("from_column_slice", e)
        if len(segs) >= 2 and segs[-2] == "f64" and name in self.METH1:
            return self.paren(f"{self.METH1[name]} {args[0]}")
        if full2 == "f64::from":
            return args[0]
        it = self.lookup_fn(name, segs[-2] if len(segs) > 1 and segs[-2][0].isupper() else None)
        if it is None and len(segs) > 1:
            it = self.lookup_fn(name)
        if it is not None:
            sub = self
            if it.file != self.fname:
                sub = Evaluator(it.file, self.all_items.get(("__file__", it.file), []), self.all_items, self.consts)
                sub.depth = self.depth
            return sub.call_fn(it, args)
        if name[0].isupper() and len(segs) == 1:
            return ("STRUCT", name, {str(i): a for i, a in enumerate(args)})
        self.fail(f"unknown function {'::'.join(segs)}", e)

    def apply_closure(self, fv, args, e):
        if not (isinstance(fv, tuple) and fv[0] == "CLOSURE"):
            self.fail("call of non-closure", e)
        env = dict(fv[3])
        for p, a in zip(fv[1], args):
            self.bind(p, a, env)
        return self.ev(fv[2], env)

    def mcall(self, e, env):
        recv, name, argexprs = e[1], e[2], e[3]
        rv = self.ev(recv, env)
        args = [self.ev(a, env) for a in argexprs]
        if self.is_r(rv):
            if name in self.METH1 and not args:
                return self.paren(f"{self.METH1[name]} {rv}")
            if name == "powi":
                ne = argexprs[0]
                if ne[0] == "num" and ne[1].isdigit():
                    return self.paren(f"{rv} ^ {ne[1]}")
                if ne[0] == "unary" and ne[1] == "-" and ne[2][0] == "num":
                    return self.paren(f"/ ({rv} ^ {ne[2][1]})")
                self.fail("powi exponent", e)
            if name == "powf" and self.is_r(args[0]):
                return self.paren(f"Rpower {rv} {args[0]}")
            if name == "max":
                return self.paren(f"Rmax {rv} {args[0]}")
            if name == "min":
                return self.paren(f"Rmin {rv} {args[0]}")
            if name == "rem_euclid":
                return self.paren(f"rem_euclid {rv} {args[0]}")
            if name == "round":
                return self.paren(f"round_half_away {rv}")
            if name == "floor":
                return self.paren(f"Rfloor {rv}")
            if name == "ceil":
                return self.paren(f"Rceil {rv}")
            if name == "signum":
                return self.paren(f"signum {rv}")
            if name in ("clone", "into", "value_unsafe", "to_owned"):
                return rv
            if name == "atan2":
                self.fail("atan2", e)
        if isinstance(rv, tuple) and rv[0] == "V3":
            if name == "component_div":
                return ("V3", [self.arith("/", x, y) for x, y in zip(rv[1], args[0][1])])
            if name == "component_mul":
                return ("V3", [self.arith("*", x, y) for x, y in zip(rv[1], args[0][1])])
            if name == "map":
                return ("V3", [self.apply_closure(args[0], [x], e) for x in rv[1]])
            if name in ("clone", "into"):
                return rv
        if isinstance(rv, tuple) and rv[0] == "STRUCT":
            it = self.lookup_fn(name, rv[1])
            if it is None:
                # generic impl: find by method name in any file among all_items with matching container
                it = self.all_items.get((rv[1], name))
            if it is not None:
                sub = self
                if it.file != self.fname:
                    sub = Evaluator(it.file, self.all_items.get(("__file__", it.file), []), self.all_items, self.consts)
                    sub.depth = self.depth
                return sub.call_fn(it, args, self_val=rv)
            if name == "clone":
                return rv
        if name in ("clone", "into", "unwrap"):
            return rv
        self.fail(f"method {name} on {str(rv)[:80]}", e)


# =====================================================================================================
# emitters
# =====================================================================================================

def sha(text):
    return hashlib.sha256(text.encode()).hexdigest()


class Out:
    def __init__(self, outdir):
        self.outdir = outdir
        self.spans = {}
        self.files = {}
        self.owner = {}      # generated file -> generator that wrote it
        self.current = None
        self.failed = {}     # generator -> message

    def span(self, key, it):
        self.spans[key] = {"file": os.path.relpath(it.file, REPO), "lines": list(it.span), "sha256": sha(it.text)}

    def write(self, name, text):
        self.files[name] = text
        self.owner[name] = self.current

    def flush(self):
        os.makedirs(self.outdir, exist_ok=True)
        for name, text in self.files.items():
            p = os.path.join(self.outdir, name)
            old = open(p).read() if os.path.exists(p) else None
            if old != text:
                with open(p, "w") as f:
                    f.write(text)
        with open(os.path.join(self.outdir, "spans.json"), "w") as f:
            json.dump(self.spans, f, indent=1, sort_keys=True)
        # which generator owns which file; a generator that failed this run must not leave its previous output behind
        gp = os.path.join(self.outdir, "gens.json")
        prev = {}
        if os.path.exists(gp):
            try:
                prev = json.load(open(gp)).get("owner", {})
            except ValueError:
                prev = {}
        owner = dict(prev)
        owner.update(self.owner)
        for fname, g in list(owner.items()):
            if g in self.failed and fname not in self.files:
                for ext in ("", "o", "ok", "os"):
                    try:
                        os.remove(os.path.join(self.outdir, fname + ext))
                    except OSError:
                        pass
        with open(gp, "w") as f:
            json.dump({"owner": owner, "failed": self.failed, "asserts_seen": sorted(set(ASSERTS_SEEN) | set(getattr(sys.modules.get("rs2coq"), "ASSERTS_SEEN", set())))}, f, indent=1, sort_keys=True)


HEADER = """(* GENERATED by tools/rs2coq.py from {src} — do not edit; regenerated on every check run. *)
From Coq Require Import Reals String List.
From SpdVerif Require Import Base.Rx.
Import ListNotations.
Local Open Scope R_scope.
Local Open Scope string_scope.
"""

CRYSTAL_ENUM = ["BBO_1", "KTP", "BiBO_1", "LiNbO3_1", "LiNb_MgO", "KDP_1", "AgGaSe2_1", "AgGaSe2_2", "LiIO3_2",
                "LiIO3_1", "AgGaS2_1"]


def coq_string(s):
    return '"' + s.replace('"', '""') + '"'


def load_all(repo):
    """index of helper items across the files whose functions may be inlined"""
    idx = {}
    files = ["src/utils.rs", "src/math/mod.rs", "src/crystal/sellmeier/mod.rs",
             "src/crystal/sellmeier/equations/standard.rs",
             "src/crystal/sellmeier/temperature_dependence/standard.rs",
             "src/crystal/sellmeier/temperature_dependence/none.rs", "src/constants.rs"]
    for f in files:
        p = os.path.join(repo, f)
        items = parse_file(p)
        idx[("__file__", p)] = items
        for it in items:
            for c in it.container:
                idx.setdefault((c, it.name), it)
            if not it.container or it.container == []:
                idx.setdefault(it.name, it)
            idx.setdefault(it.name, it)
    return idx


def gen_crystals(repo, out):
    allidx = load_all(repo)
    ct_path = os.path.join(repo, "src/crystal/crystal_type.rs")
    ct_items = parse_file(ct_path)
    # --- enum variants, read from the source text (the parser does not handle enum declarations)
    src = open(ct_path).read()
    m = re.search(r"pub enum CrystalType \{(.*?)\n\}", src, re.S)
    if not m:
        raise Untranslatable(ct_path, 0, "enum CrystalType not found")
    variants = [v for v in re.findall(r"^\s*([A-Za-z_][A-Za-z0-9_]*)\s*(?:\(|,)", m.group(1), re.M)]
    builtins = [v for v in variants if v != "Expr"]
    if builtins != CRYSTAL_ENUM:
        raise Untranslatable(ct_path, 0, f"CrystalType variants changed: {builtins}")
    body = []
    body.append(HEADER.format(src="src/crystal/*.rs"))
    body.append("From SpdVerif Require Import Spec.CrystalTypes.\n")

    def arms_of(fnname):
        its = [i for i in ct_items if i.kind == "fn" and i.name == fnname and "CrystalType" in i.container]
        if len(its) != 1:
            raise Untranslatable(ct_path, 0, f"fn {fnname} not found")
        it = its[0]
        if it.error:
            raise it.error
        out.span(f"crystal_type::{fnname}", it)
        tail = it.body[2]
        if tail is None or tail[0] != "match":
            raise Untranslatable(ct_path, it.span[0], f"{fnname}: body is not a match")
        return it, tail[2]

    # --- per-crystal modules through the dispatch in get_indices / get_meta
    modcache = {}

    def module(modname):
        if modname not in modcache:
            p = os.path.join(repo, "src/crystal", modname + ".rs")
            items = parse_file(p)
            modcache[modname] = (p, items)
        return modcache[modname]

    it_gi, arms = arms_of("get_indices")
    defs = []
    dispatch = {}
    for pat, guard, rhs in arms:
        if pat[0] == "ptstruct":  # Expr(expr)
            continue
        if pat[0] != "ppath" or guard is not None:
            raise Untranslatable(ct_path, it_gi.span[0], f"get_indices arm {pat!r}")
        variant = pat[1][-1]
        w, t = R("wavelength"), R("temperature")
        if rhs[0] == "call" and rhs[1][0] == "path" and rhs[1][1][-1] == "get_indices" and len(rhs[1][1]) == 2:
            mod = rhs[1][1][0]
            p, items = module(mod)
            fn = [i for i in items if i.kind == "fn" and i.name == "get_indices"]
            if len(fn) != 1:
                raise Untranslatable(p, 0, "get_indices not found")
            if [a[0] == "path" and a[1][-1] for a in rhs[2]] != ["vacuum_wavelength", "temperature"]:
                raise Untranslatable(ct_path, it_gi.span[0], "dispatch arguments")
            out.span(f"{mod}::get_indices", fn[0])
            for c in items:
                if c.kind == "const":
                    out.span(f"{mod}::{c.name}", c)
            ev = Evaluator(p, items, allidx)
            val = ev.call_fn(fn[0], [w, t])
        elif rhs[0] == "mcall" and rhs[2] == "get_indices" and rhs[1][0] == "path" and len(rhs[1][1]) == 2:
            mod, cname = rhs[1][1]
            p, items = module(mod)
            cs = [i for i in items if i.kind == "const" and i.name == cname]
            if len(cs) != 1:
                raise Untranslatable(p, 0, f"const {cname} not found")
            out.span(f"{mod}::{cname}", cs[0])
            ev = Evaluator(p, items, allidx)
            sv = ev.ev(cs[0].body, {})
            meth = allidx.get(("SellmeierCrystal", "get_indices"))
            if meth is None:
                raise Untranslatable(p, 0, "SellmeierCrystal::get_indices not found")
            out.span("sellmeier::SellmeierCrystal::get_indices", meth)
            for key in [("SellmeierStandard", "get_indices"), ("Standard", "apply"), ("None", "apply"), "get_indices"]:
                if key in allidx and allidx[key].kind == "fn":
                    out.span("sellmeier::" + (key if isinstance(key, str) else "::".join(key)), allidx[key])
            sub = Evaluator(meth.file, allidx[("__file__", meth.file)], allidx)
            val = sub.call_fn(meth, [w, t], self_val=sv)
        else:
            raise Untranslatable(ct_path, it_gi.span[0], f"get_indices arm for {variant}")
        if not (isinstance(val, tuple) and val[0] == "V3"):
            raise Untranslatable(ct_path, it_gi.span[0], f"{variant}: result is not a vector")
        dispatch[variant] = val
        defs.append(f"Definition indices_{variant} (wavelength temperature : R) : R * R * R :=\n  ({val[1][0]},\n   {val[1][1]},\n   {val[1][2]}).\n")
    missing = [v for v in builtins if v not in dispatch]
    if missing:
        raise Untranslatable(ct_path, it_gi.span[0], f"get_indices has no arm for {missing}")
    body.extend(defs)
    body.append("Definition get_indices (c : crystal) : R -> R -> R * R * R :=\n  match c with\n" +
                "".join(f"  | {v} => indices_{v}\n" for v in builtins) + "  end.\n")

    # --- META
    it_gm, arms = arms_of("get_meta")
    metas = {}

    def meta_to_coq(sv, where):
        if not (isinstance(sv, tuple) and sv[0] == "STRUCT" and sv[1] == "CrystalMeta"):
            raise Untranslatable(where, 0, "META is not a CrystalMeta literal")
        f = sv[2]
        need = ["id", "name", "reference_url", "axis_type", "point_group", "transmission_range", "temperature_dependence_known"]
        if sorted(f) != sorted(need):
            raise Untranslatable(where, 0, f"CrystalMeta fields {sorted(f)}")
        tr = f["transmission_range"]
        if isinstance(tr, tuple) and tr[0] == "STRUCT" and tr[1] == "None":
            trc = "None"
        else:
            raise Untranslatable(where, 0, "transmission_range")
        return tr, f

    for pat, guard, rhs in arms:
        if pat[0] == "ptstruct":
            continue
        variant = pat[1][-1]
        if rhs[0] == "path" and len(rhs[1]) == 2 and rhs[1][1] == "META":
            mod = rhs[1][0]
            p, items = module(mod)
            cs = [i for i in items if i.kind == "const" and i.name == "META"]
            if len(cs) != 1:
                raise Untranslatable(p, 0, "META not found")
            out.span(f"{mod}::META", cs[0])
            metas[variant] = (p, cs[0].body)
        elif rhs[0] == "mcall" and rhs[2] == "get_meta" and rhs[1][0] == "path" and len(rhs[1][1]) == 2:
            mod, cname = rhs[1][1]
            p, items = module(mod)
            cs = [i for i in items if i.kind == "const" and i.name == cname]
            bodyc = cs[0].body
            if bodyc[0] != "struct":
                raise Untranslatable(p, 0, f"{cname} is not a struct literal")
            mf = [x for f_, x in bodyc[2] if f_ == "meta"]
            if len(mf) != 1:
                raise Untranslatable(p, 0, "meta field")
            metas[variant] = (p, mf[0])
        else:
            raise Untranslatable(ct_path, it_gm.span[0], f"get_meta arm for {variant}")
    missing = [v for v in builtins if v not in metas]
    if missing:
        raise Untranslatable(ct_path, it_gm.span[0], f"get_meta has no arm for {missing}")

    def meta_coq(p, e):
        if e[0] != "struct" or e[1][-1] != "CrystalMeta":
            raise Untranslatable(p, 0, "META is not a CrystalMeta literal")
        f = dict(e[2])
        need = ["id", "name", "reference_url", "axis_type", "point_group", "transmission_range", "temperature_dependence_known"]
        if sorted(f) != sorted(need):
            raise Untranslatable(p, 0, f"CrystalMeta fields {sorted(f)}")

        def s(x):
            if x[0] != "str":
                raise Untranslatable(p, 0, "string expected in META")
            return coq_string(x[1])

        def enum(x, ty):
            if x[0] != "path" or x[1][-2] != ty:
                raise Untranslatable(p, 0, f"{ty} expected in META")
            return x[1][-1]
        tr = f["transmission_range"]
        if tr[0] == "path" and tr[1][-1] == "None":
            trc = "None"
        elif tr[0] == "call" and tr[1][1][-1] == "Some" and tr[2][0][0] == "call" and tr[2][0][1][1][-1] == "ValidWavelengthRange":
            lo, hi = tr[2][0][2]
            ev = Evaluator(p, [], {})
            trc = f"Some ({ev.ev(lo, {})}, {ev.ev(hi, {})})"
        else:
            raise Untranslatable(p, 0, "transmission_range")
        tk = f["temperature_dependence_known"]
        if tk[0] != "bool":
            raise Untranslatable(p, 0, "temperature_dependence_known")
        return ("{| meta_id := %s; meta_name := %s; meta_url := %s;\n     meta_axis := %s; meta_group := %s;\n     meta_range := %s; meta_temp_known := %s |}"
                % (s(f["id"]), s(f["name"]), s(f["reference_url"]), enum(f["axis_type"], "OpticAxisType"),
                   enum(f["point_group"], "PointGroup"), trc, "true" if tk[1] else "false"))

    for v in builtins:
        p, e = metas[v]
        body.append(f"Definition meta_{v} : crystal_meta :=\n  {meta_coq(p, e)}.\n")
    body.append("Definition get_meta (c : crystal) : crystal_meta :=\n  match c with\n" +
                "".join(f"  | {v} => meta_{v}\n" for v in builtins) + "  end.\n")

    # --- from_string arms (string literal -> variant); the fall-through arm is the expression parser
    it_fs, arms = arms_of("from_string")
    pairs = []
    for pat, guard, rhs in arms:
        if pat[0] == "pwild":
            continue
        if pat[0] != "plit" or pat[1][0] != "str":
            raise Untranslatable(ct_path, it_fs.span[0], f"from_string arm {pat!r}")
        if not (rhs[0] == "call" and rhs[1][1] == ["Ok"] and rhs[2][0][0] == "path" and rhs[2][0][1][0] == "CrystalType"):
            raise Untranslatable(ct_path, it_fs.span[0], "from_string arm value")
        pairs.append((pat[1][1], rhs[2][0][1][1]))
    fs = "Definition from_string (s : string) : option crystal :=\n"
    for lit, var in pairs:
        fs += f"  if String.eqb s {coq_string(lit)} then Some {var} else\n"
    fs += "  None.\n"
    body.append(fs)

    # --- get_all_meta
    its = [i for i in ct_items if i.kind == "fn" and i.name == "get_all_meta"]
    if len(its) != 1 or its[0].error:
        raise Untranslatable(ct_path, 0, "get_all_meta")
    out.span("crystal_type::get_all_meta", its[0])
    tail = its[0].body[2]
    if tail[0] != "macro" or tail[1] != "vec":
        raise Untranslatable(ct_path, its[0].span[0], "get_all_meta is not a vec!")
    lst = []
    for a in tail[2]:
        if a[0] == "path" and a[1][-1] == "META":
            p, e = [x for x in metas.items() if os.path.basename(x[1][0]) == a[1][0] + ".rs"][0][1]
            lst.append([v for v in builtins if metas[v][0] == p][0])
        elif a[0] == "mcall" and a[2] == "get_meta":
            mod = a[1][1][0]
            lst.append([v for v in builtins if os.path.basename(metas[v][0]) == mod + ".rs"][0])
        else:
            raise Untranslatable(ct_path, its[0].span[0], "get_all_meta element")
    body.append("Definition get_all_meta : list crystal_meta :=\n  [" + "; ".join(f"meta_{v}" for v in lst) + "].\n")
    # Display: write!(f, "{}", self.get_meta().id)
    its = [i for i in ct_items if i.kind == "fn" and i.name == "fmt" and "CrystalType" in i.container]
    if len(its) != 1 or its[0].error:
        raise Untranslatable(ct_path, 0, "Display for CrystalType")
    out.span("crystal_type::Display::fmt", its[0])
    t = its[0].body[2]
    ok = (t[0] == "macro" and t[1] == "write" and isinstance(t[2], list) and len(t[2]) == 3 and t[2][1] == ("str", "{}")
          and t[2][2] == ("field", ("mcall", ("path", ["self"]), "get_meta", []), "id"))
    if not ok:
        raise Untranslatable(ct_path, its[0].span[0], "Display for CrystalType is not `write!(f, \"{}\", self.get_meta().id)`")
    body.append("Definition to_string (c : crystal) : string := meta_id (get_meta c).\n")
    out.write("Crystals.v", "\n".join(body))


REPO = None


def main():
    global REPO
    REPO = os.path.abspath(sys.argv[1])
    outdir = sys.argv[2]
    only = set(sys.argv[3:])
    out = Out(outdir)
    gens = {"crystals": gen_crystals}
    # further generators: every tools/gen/<name>.py exporting GENS = {name: function(repo, out)}
    gdir = os.path.join(os.path.dirname(os.path.abspath(__file__)), "gen")
    if os.path.isdir(gdir):
        sys.path.insert(0, gdir)
        for f in sorted(os.listdir(gdir)):
            if f.endswith(".py") and not f.startswith("_"):
                mod = __import__(f[:-3])
                gens.update(getattr(mod, "GENS", {}))
    status = 0
    for name, g in gens.items():
        if only and name not in only:
            continue
        out.current = name
        before = set(out.files)
        try:
            g(REPO, out)
        except Untranslatable as e:
            print(f"{e}  [generator {name}]")
            out.failed[name] = str(e)
            status = 3
        except Exception as e:  # a generator bug must not hide the other generators' output
            print(f"UNTRANSLATABLE {name}:0 generator crashed: {type(e).__name__}: {e}  [generator {name}]")
            out.failed[name] = f"generator crashed: {type(e).__name__}: {e}"
            status = 3
        if name in out.failed:
            # drop whatever the failed generator had already queued: a partial model must not be built
            for fname in set(out.files) - before:
                del out.files[fname]
    out.flush()
    return status


if __name__ == "__main__":
    sys.exit(main())
