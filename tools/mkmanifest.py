#!/usr/bin/env python3
"""Regenerate MANIFEST.json from the table below (keeps the file valid and consistent)."""
import json
import os

ROOT = os.path.dirname(os.path.dirname(os.path.abspath(__file__)))
ALL = [f"C{i:02d}" for i in range(1, 21)]

CLAIMED = {
    "C01": {
        "text": "Kernel-checked theorems (Props/C01.v) over index functions REGENERATED from src/crystal/*.rs on every run: equality with the "
                "hand-pinned published Sellmeier/thermo-optic equations, definedness, 1<n<4, strict decrease in wavelength, optical class, window "
                "inside 100 nm-20 um, identifier round trip and uniqueness, temperature laws - for every crystal, every in-window wavelength and every "
                "T in [-50,200] C (continuous box, closed by interval arithmetic with bisection and an analytic monotonicity lemma). The float/real "
                "gap is measured each run: ~3000 interval goals |model - get_indices| <= 1e-12 and |published - get_indices| <= 1e-12 on Rust outputs.",
        "note": "Trusted: Coq kernel + stdlib real/classical axioms + primitive floats (interval); translator tools/rs2coq.py; Spec/Published.v "
                "transcription; binary64 rounding measured not proved; meval expression crystals: the evaluator is not modelled; Expr crystals built from the translated formulas are compared with the model each run (validated only).",
        "technique": "Coq proof over translator-generated model (interval + analytic lemmas) + interval-checked correspondence",
        "design": "DESIGN.md §6 C01"},
}

# properties whose check exists but is being reworked: not claimed until it passes on the unchanged tree again
HOLD = {}

# further claims: props/<id>.manifest.json with keys text, note, technique, design
for _p in ALL:
    if _p in HOLD:
        continue
    _f = os.path.join(ROOT, "props", _p.lower() + ".manifest.json")
    if os.path.exists(_f):
        CLAIMED[_p] = json.load(open(_f))

NOT_YET = "not yet built in this development (the Coq model and check for it are still to be written); no claim is made"


def main():
    checks = []
    for pid in ALL:
        if pid not in CLAIMED:
            continue
        c = CLAIMED[pid]
        checks.append({
            "property_id": pid,
            "quick_cmd": f"./check {pid} --tier quick",
            "thorough_cmd": f"./check {pid} --tier thorough",
            "evidence_file": f"evidence/{pid}.json",
            "replay_cmd_template": f"./check {pid} --replay {{path}}",
            "engine": "coq-proof",
            "level_claimed": {"category": "proof", "text": c["text"], "design_ref": c["design"]},
            "level_note": c["note"],
            "technique": c["technique"],
        })
    man = {
        "version": 1,
        "setup_cmd": "./setup.sh",
        "hooks": {"guard": "kshalm_spdcalc_verif", "enable": "RUSTFLAGS=\"--cfg kshalm_spdcalc_verif\" (harness built with CARGO_TARGET_DIR=harness/target/hooks)",
                  "baseline_off_cmd": "cd /repo && cargo test --workspace --no-fail-fast --offline",
                  "source_commits": [], "add_only": True},
        "engines": [{"name": "coq-proof", "path": "check", "serves_properties": sorted(CLAIMED),
                     "kind_free_text": "Coq 8.16 theorems over a translator-generated + hand-written model; correspondence by coqc-evaluated cases against a Rust harness"}],
        "checks": checks,
        "notes": "See DESIGN.md. Each check regenerates coq/Gen from /repo, rebuilds the harness against /repo, re-checks the property's theorems, "
                 "runs the correspondence cases and the property oracle, and writes evidence/<id>.json.",
        "not_applicable": [{"property_id": p, "reason": HOLD.get(p, NOT_YET)} for p in ALL if p not in CLAIMED],
    }
    with open(os.path.join(ROOT, "MANIFEST.json"), "w") as f:
        json.dump(man, f, indent=1)


if __name__ == "__main__":
    main()
