#!/usr/bin/env python3
"""seedtest.py <patch.diff> <ID> [tier]  — apply a seeded change to /repo, run ./check <ID>, undo the change.
Prints the check's exit code and VIOLATION lines.  /repo is always restored (git checkout -- . ; untracked files from the patch removed)."""
import subprocess
import sys
import os

patch, pid = os.path.abspath(sys.argv[1]), sys.argv[2]
REPO = os.environ.get("SEED_REPO", "/repo")      # a scratch worktree of /repo may be used (the harness Cargo.toml of SEED_VERIF must point at it)
VERIF = os.environ.get("SEED_VERIF", os.path.dirname(os.path.dirname(os.path.abspath(__file__))))
tier = sys.argv[3] if len(sys.argv) > 3 else "quick"
st = subprocess.run(["git", "-C", REPO, "status", "--porcelain"], capture_output=True, text=True).stdout.strip()
if st:
    print("refusing: /repo working tree is not clean:\n" + st)
    sys.exit(2)
r = subprocess.run(["git", "-C", REPO, "apply", patch], capture_output=True, text=True)
if r.returncode != 0:
    print("patch does not apply:", r.stderr)
    sys.exit(2)
try:
    r = subprocess.run(["./check", pid, "--tier", tier], cwd=VERIF, env=dict(os.environ, VERIF_REPO=REPO), capture_output=True, text=True, timeout=3600)
    lines = [l for l in r.stdout.splitlines() if l.startswith(("VIOLATION", "KNOWN-FINDING", "   proof obligation broken", "S3", "S4", "CHECK ERROR")) or l.startswith(pid)]
    print("\n".join(lines[-25:]))
    print("exit code:", r.returncode)
finally:
    subprocess.run(["git", "-C", REPO, "checkout", "--", "."], check=True)
    subprocess.run(["git", "-C", REPO, "clean", "-fdq", "--", "src", "examples", "tests"], check=False)
    st = subprocess.run(["git", "-C", REPO, "status", "--porcelain"], capture_output=True, text=True).stdout.strip()
    print("repo restored:", "clean" if not st else st)
