#!/bin/sh
# run every claimed check's quick command once; print one summary line per property
cd "$(dirname "$0")/.."
for p in $(python3 -c "import json; print(' '.join(c['property_id'] for c in json.load(open('MANIFEST.json'))['checks']))"); do
  out=$(./check $p --tier ${1:-quick} 2>&1)
  rc=$?
  echo "$out" | grep -E "^VIOLATION|^KNOWN-FINDING|proof obligation broken" | cut -c1-260
  echo "$p rc=$rc $(echo "$out" | tail -1)"
done
