#!/usr/bin/env python3
"""seedstore.py <PID> <out_dir>   — copy confirmed seeds (with verified.json confirmed=true) into /verif/seeded/<PID>-<k>/."""
import json, os, shutil, sys
pid, out = sys.argv[1], sys.argv[2]
root = "/verif/seeded"
os.makedirs(root, exist_ok=True)
existing = [d for d in os.listdir(root) if d.startswith(pid + "-")]
k = len(existing)
for sub in sorted(os.listdir(out)):
    d = os.path.join(out, sub)
    vf = os.path.join(d, "verified.json")
    if not os.path.exists(vf):
        print("not verified:", d); continue
    v = json.load(open(vf))
    if not v.get("confirmed"):
        print("NOT confirmed:", d, v); continue
    k += 1
    t = os.path.join(root, f"{pid}-{k}")
    os.makedirs(t)
    shutil.copy(os.path.join(d, "patch.diff"), t)
    shutil.copy(os.path.join(d, "demo.rs"), t)
    m = json.load(open(os.path.join(d, "meta.json")))
    m["confirmed_by_coordinator"] = {"how": "python3 tools/seedverify.py (scratch git worktree of /repo, /tmp/seed/verify)",
        "demo_unchanged_rc": v["demo_unchanged_rc"], "patched_compiles": v["compiles"],
        "baseline_tests_missing_with_patch": v["baseline_missing"], "demo_patched_rc": v["demo_patched_rc"]}
    m["detected_by"] = "pending"
    json.dump(m, open(os.path.join(t, "meta.json"), "w"), indent=1)
    print("stored", t)
